; sort.Slice precondition for hashUnion: for every permutation state S of 'sorted' (S = U o pi),
; less(i,j) as coded reads U[i].Name < U[j].Name; required: R(S[i],S[j]) = Name(S[i]) < Name(S[j])
(set-logic ALL)
(declare-fun n () Int)
(declare-fun U (Int) Int)          ; u.Values[i] : Ref
(declare-fun S (Int) Int)          ; current content of sorted
(declare-fun pi (Int) Int)
(declare-fun Name (Int) String)
(declare-fun i () Int) (declare-fun j () Int)
(assert (and (<= 0 i) (< i n) (<= 0 j) (< j n)))
(assert (forall ((k Int)) (=> (and (<= 0 k) (< k n)) (and (<= 0 (pi k)) (< (pi k) n) (= (S k) (U (pi k)))))))
(assert (not (= (str.< (Name (U i)) (Name (U j))) (str.< (Name (S i)) (Name (S j))))))
(check-sat)
(get-model)
