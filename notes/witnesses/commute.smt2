; map-range commutativity for: if hasPrefix(k,"struct:field:") { h += "+" ++ k ++ v }
(set-logic ALL)
(declare-fun h () String) (declare-fun k1 () String) (declare-fun k2 () String)
(declare-fun v1 () String) (declare-fun v2 () String)
(define-fun body ((h String) (k String) (v String)) String
  (ite (str.prefixof "struct:field:" k) (str.++ h "+" k v) h))
(assert (not (= k1 k2)))
(assert (not (= (body (body h k1 v1) k2 v2) (body (body h k2 v2) k1 v1))))
(check-sat)
(get-model)
