(set-logic ALL)
(declare-fun h () String)
(declare-fun mt () String)
(declare-fun parse (String) String)
(declare-fun parseok (String) Bool)
; header after SetContentType
(define-fun hdr () String
  (ite (= h "") mt
   (ite (and (not (= mt "application/json")) (not (= mt "application/xml"))) mt
    (ite (str.contains h "+") h
      (str.++ h (ite (= mt "application/xml") "+xml" "+json"))))))
(define-fun kind ((c String)) Int
  (ite (or (= c "application/json") (str.suffixof "+json" c)) 0
  (ite (or (= c "application/xml") (str.suffixof "+xml" c)) 1
  (ite (or (= c "application/gob") (str.suffixof "+gob" c)) 2
  (ite (or (= c "text/html") (= c "text/plain") (str.suffixof "+html" c) (str.suffixof "+txt" c)) 3 0)))))
(assert (or (= mt "application/json") (= mt "application/xml")))
(assert (not (str.contains h "+")))
(assert (not (= h "")))
(assert (not (= (kind hdr) (ite (= mt "application/json") 0 1))))
(check-sat)
(get-model)
