#!/usr/bin/env python3
"""Developer aid: splits the goal of a kept obligation query into its conjuncts (through =>) and reports
which ones the solver cannot prove. usage: explain.py query.smt2 [timeout]"""
import subprocess, sys
def parse(s):
    i=0
    def p():
        nonlocal i
        while s[i].isspace(): i+=1
        if s[i]=='(':
            i+=1; out=[]
            while True:
                while s[i].isspace(): i+=1
                if s[i]==')': i+=1; return out
                out.append(p())
        elif s[i]=='"':
            j=i+1
            while True:
                if s[j]=='"':
                    if j+1<len(s) and s[j+1]=='"': j+=2; continue
                    break
                j+=1
            t=s[i:j+1]; i=j+1; return t
        elif s[i]=='|':
            j=s.index('|',i+1); t=s[i:j+1]; i=j+1; return t
        else:
            j=i
            while not s[j].isspace() and s[j] not in '()': j+=1
            t=s[i:j]; i=j; return t
    return p()
def show(x): return x if isinstance(x,str) else '('+' '.join(show(y) for y in x)+')'
def leaves(g, hyps):
    if isinstance(g,list) and g and g[0]=='=>' and len(g)==3:
        yield from leaves(g[2], hyps+[g[1]])
    elif isinstance(g,list) and g and g[0]=='and':
        for x in g[1:]: yield from leaves(x, hyps)
    else:
        yield hyps, g
src=[l for l in open(sys.argv[1]).read().split('\n') if not l.startswith('(get-model') and l!='(check-sat)']
to=sys.argv[2] if len(sys.argv)>2 else '8'
gi=max(i for i,l in enumerate(src) if l.startswith('(assert (not'))
pre='\n'.join(src[:gi])
g=parse(src[gi])[1][1]
for hyps,c in leaves(g,[]):
    h=' '.join(show(x) for x in hyps)
    q=pre+'\n(assert (not (=> (and true %s) %s)))\n(check-sat)\n'%(h,show(c))
    open('/tmp/_explain.smt2','w').write(q)
    res=[]
    for solver in (['z3-new','-T:'+to,'smt.random_seed=0'],['z3','-T:'+to]):
        try:
            r=subprocess.run(solver+['/tmp/_explain.smt2'],capture_output=True,text=True,timeout=int(to)+5).stdout.split('\n')[0]
        except subprocess.TimeoutExpired:
            r='timeout'
        res.append(r)
        if r=='unsat': break
    print(res, show(c)[:170])
