#!/usr/bin/env python3
"""usage: seedmeta.py <fastselftest log>: records in every seeded/<id>/meta.json whether the committed checks detect
the change (detected) and, when they do and nothing is recorded yet, the first failing obligation (caught_by);
a seed that was not detected when it was first run keeps initially_missed = true."""
import json, re, glob, os, sys
log = {}
for l in open(sys.argv[1]):
    m = re.match(r'(caught|MISSED) (\S+) \((C\d+)\)\s*(.*)', l)
    if m: log[m.group(2)] = (m.group(1), m.group(4))
n = miss = 0
for d in sorted(glob.glob('/verif/seeded/*/')):
    id = os.path.basename(d.rstrip('/'))
    f = d + 'meta.json'; m = json.load(open(f))
    if id not in log: continue
    st, rest = log[id]
    n += 1
    chk = d + '.check.json'
    if 'initially_missed' not in m and os.path.exists(chk):
        try:
            c = json.loads(open(chk).read().strip().splitlines()[-1])
            m['initially_missed'] = max(x['exit'] for x in c['checks']) != 1
            m['confirmed_by'] = '/verif/seedcheck.sh'
            m['confirmation'] = {k: c[k] for k in ('build', 'tests', 'demo_with_patch', 'demo_without_patch')}
        except Exception:
            pass
    if st == 'caught':
        obl = re.sub(r'^\d+b\s*', '', rest).strip(',').split(',')[0]
        if not m.get('caught_by'): m['caught_by'] = obl
        m['detected'] = True
    else:
        m['detected'] = False; miss += 1
    json.dump(m, open(f, 'w'), indent=1)
print(n, 'seeds,', miss, 'not detected')
