#!/usr/bin/env python3
"""Writes the `params`, `locals` and `captures` clauses of the func contracts in /repo/**/verif_contracts.go.

usage: goavc names <pkgs...> > names.tsv ; annotate_names.py names.tsv

params:   the target's parameter names (receiver first), bound by position afterwards.
locals:   every named local of the target with its type ("x:T", "x#2:T" for the second variable called x), in
          declaration order -- written when the contract text mentions one of them. goavc binds the contract's
          names to the body's locals per type by position when the body is edited (rename.go).
captures: the captured variables of a closure, bound by position afterwards.
Run when a contract is written or its target's locals change on purpose; goavc never runs it.
"""
import re, sys, collections
entries = collections.defaultdict(list)
for line in open(sys.argv[1]):
    loc, name, params, locs, fvs = (line.rstrip("\n").split("\t") + ["", "", "", ""])[:5]
    if ":" not in loc:
        continue
    f, ln = loc.rsplit(":", 1)
    entries[f].append((int(ln), name, params.split(), locs.split(), fvs.split()))
for f, es in entries.items():
    lines = open(f).read().split("\n")
    for ln, name, params, locs, fvs in sorted(es, reverse=True):
        i = ln - 1
        assert lines[i].startswith("//@ func"), (f, ln, lines[i])
        j = i + 1
        while j < len(lines) and (lines[j].startswith("//@  ") or (lines[j].startswith("//") and not lines[j].startswith("//@"))):
            j += 1
        block = [b for b in lines[i + 1:j] if not re.match(r"//@\s+(locals|captures)\b", b)]
        text = "\n".join(block)
        bound = set()
        for m in re.finditer(r"\b(?:forall|exists)\s+((?:\w+\s+[\w.*\[\]]+\s*,?\s*)+)::", text):
            toks = m.group(1).replace(",", " ").split()
            bound.update(toks[0::2])
        ins = []
        if params and not any(re.match(r"//@\s+params\b", b) for b in block):
            ins.append("//@   params " + " ".join(params))
        def mentioned(n):
            return re.search(r"(?<![\w.])" + re.escape(n) + r"(?![\w(])", text) is not None
        names = [l.split(":")[0] for l in locs]
        used = [n for n in names if n.split("#")[0] not in params and n.split("#")[0] not in bound and mentioned(n.split("#")[0])]
        if used:
            ins.append("//@   locals " + " ".join(locs))
        if fvs and any(mentioned(v.split(":")[0]) for v in fvs):
            ins.append("//@   captures " + " ".join(fvs))
        # keep a params line first if the block has one
        k = 0
        while k < len(block) and re.match(r"//@\s+(params|property)\b", block[k]):
            k += 1
        block[k:k] = [x for x in ins if not x.startswith("//@   params")]
        block[0:0] = [x for x in ins if x.startswith("//@   params")]
        lines[i + 1:j] = block
    open(f, "w").write("\n".join(lines))
