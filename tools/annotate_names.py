#!/usr/bin/env python3
"""Writes the `params` and `locals` clauses of the func contracts in /repo/**/verif_contracts.go.

usage: goavc names <pkgs...> > names.tsv ; annotate_names.py names.tsv

params: the target's parameter names (receiver first), bound by position afterwards.
locals: the named locals of the target that the contract text mentions, in declaration order.
Run once when a contract is written; goavc never runs it.
"""
import re, sys, collections
entries = collections.defaultdict(list)
for line in open(sys.argv[1]):
    loc, name, params, locs = (line.rstrip("\n").split("\t") + ["", "", ""])[:4]
    f, ln = loc.rsplit(":", 1)
    entries[f].append((int(ln), name, params.split(), locs.split()))
for f, es in entries.items():
    lines = open(f).read().split("\n")
    for ln, name, params, locs in sorted(es, reverse=True):
        i = ln - 1
        assert lines[i].startswith("//@ func"), (f, ln, lines[i])
        j = i + 1
        while j < len(lines) and lines[j].startswith("//@  "):
            j += 1
        block = lines[i + 1:j]
        text = "\n".join(block)
        bound = set()
        for m in re.finditer(r"\b(?:forall|exists)\s+((?:\w+\s+\w+\s*,?\s*)+)::", text):
            toks = m.group(1).replace(",", " ").split()
            bound.update(toks[0::2])
        ins = []
        if params and not any(re.match(r"//@\s+params\b", b) for b in block):
            ins.append("//@   params " + " ".join(params))
        if not any(re.match(r"//@\s+locals\b", b) for b in block):
            body = "\n".join(b for b in block if re.match(r"//@\s+(loop|at)\b", b))
            used = [l for l in locs if l not in params and l not in bound and re.search(r"(?<![\w.])" + re.escape(l) + r"(?![\w(])", body)]
            if used:
                ins.append("//@   locals " + " ".join(used))
        lines[i + 1:i + 1] = ins
    open(f, "w").write("\n".join(lines))
