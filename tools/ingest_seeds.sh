#!/bin/bash
# usage: ingest_seeds.sh <round> <prop>...   copies /tmp/seedout-<round>-<P>/{A,B,C} to seeded/<P>-<round>-{a,b,c} and runs seedcheck on each
R=$1; shift
cd /verif
for P in "$@"; do
  for X in A B C; do
    src=/tmp/seedout-$R-$P/$X
    [ -f $src/patch.diff ] || continue
    x=$(echo $X | tr A-Z a-z)
    d=seeded/$P-$R-$x
    mkdir -p $d; cp $src/patch.diff $src/demo_test.go.txt $src/meta.json $d/
    ( ./seedcheck.sh $PWD/$d $P > $d/.check.json 2>&1; echo "$P-$R-$x $(tail -1 $d/.check.json | cut -c1-700)" ) &
    while [ $(jobs -r | wc -l) -ge 5 ]; do sleep 1; done
  done
done
wait
