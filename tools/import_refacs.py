#!/usr/bin/env python3
"""usage: import_refacs.py <round> <N agents>: copies /tmp/refout-<round>-<i>/<k>/{patch.diff,meta.json} to
refactorings/R<round>-<i>-<k>/ and records in meta.json the properties whose contracts mention a function the patch touches."""
import json, os, re, sys, glob, subprocess, shutil
rnd, n = sys.argv[1], int(sys.argv[2])
manifest = json.load(open('/verif/MANIFEST.json'))
claimed = [c['property_id'] for c in manifest['checks']]
def contract_blocks(pkgdir):
    f = os.path.join('/repo', pkgdir, 'verif_contracts.go')
    if not os.path.exists(f): return {}
    out = {}; cur = None
    for l in open(f):
        m = re.match(r'//@ func (\S+)', l)
        if m: cur = m.group(1); out[cur] = ''; continue
        if l.startswith('//@ ') and not l.startswith('//@  '): cur = None
        if cur and l.startswith('//@'): out[cur] += l
    return out
for i in range(1, n + 1):
    for d in sorted(glob.glob('/tmp/refout-%s-%d/*/' % (rnd, i))):
        k = os.path.basename(d.rstrip('/'))
        if not os.path.exists(d + 'patch.diff'): continue
        patch = open(d + 'patch.diff').read()
        files = re.findall(r'^\+\+\+ b/(\S+)', patch, re.M)
        funcs = set(re.findall(r'func (?:\([^)]*\) )?(\w+)\(', patch))
        props = set()
        for f in files:
            blocks = contract_blocks(os.path.dirname(f))
            for name, text in blocks.items():
                base = re.sub(r'\$\d+', '', name).split('.')[-1].replace(')', '')
                if base in funcs:
                    props.update(re.findall(r'\bC\d\d\b', text))
        props = sorted(p for p in props if p in claimed)
        dst = '/verif/refactorings/R%s-%d-%s' % (rnd.lstrip('r'), i, k)
        os.makedirs(dst, exist_ok=True)
        shutil.copy(d + 'patch.diff', dst)
        meta = json.load(open(d + 'meta.json')) if os.path.exists(d + 'meta.json') else {}
        meta['properties'] = props
        json.dump(meta, open(dst + '/meta.json', 'w'), indent=1)
        print(dst, props, sorted(funcs)[:6])
