#!/bin/bash
# usage: mkseedwt.sh <name>   -> creates /tmp/seedwt-<name>: scratch worktree of /repo HEAD with the contract files removed
# (committed locally in the detached worktree so that `git diff` of the agent never shows them).
set -e
WT=/tmp/seedwt-$1
git -C /repo worktree add --detach "$WT" HEAD >/dev/null 2>&1
cd "$WT"
git rm -q $(git ls-files | grep verif_contracts.go)
git -c user.name=x -c user.email=x@x commit -qm "scratch: no contract files"
echo "$WT"
