#!/bin/sh
# usage: scratch.sh <patch-file> <goavc args...>
# Runs goavc against a scratch worktree of /repo (HEAD + working-tree contract files) with a patch applied.
set -e
PATCH="$1"; shift
WT=$(mktemp -d /tmp/goavc-wt-XXXXXX)
trap 'git -C /repo worktree remove --force "$WT" >/dev/null 2>&1; rm -rf "$WT"' EXIT
git -C /repo worktree add --detach "$WT" HEAD >/dev/null 2>&1
# bring uncommitted contract files along
(cd /repo && git ls-files -m -o --exclude-standard | grep verif_contracts.go | while read f; do mkdir -p "$WT/$(dirname $f)"; cp "$f" "$WT/$f"; done) || true
if [ -n "$PATCH" ] && [ "$PATCH" != "-" ]; then git -C "$WT" apply "$PATCH"; fi
GOAVC_REPO="$WT" /verif/bin/goavc "$@"
