#!/bin/bash
# Must-stay-quiet corpus: behaviour-preserving refactorings of functions under contract (/verif/refactorings).
# Prints one line per refactoring; a non-quiet one is a false alarm of the machinery (see DESIGN §8).
cd "$(dirname "$0")"
for d in refactorings/*/; do
  ps=$(python3 -c "import json;print(' '.join(json.load(open('$d/meta.json'))['properties']))")
  ./refaccheck.sh "$PWD/$d" $ps
done
