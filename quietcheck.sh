#!/bin/bash
# Must-stay-quiet corpus: behaviour-preserving refactorings of functions under contract (/verif/refactorings).
# Prints one line per refactoring and property; a non-quiet one is a false alarm of the machinery (see DESIGN §6.1).
# usage: quietcheck.sh [jobs] [name-prefix]
cd "$(dirname "$0")"
one() {
  d=$1
  ps=$(python3 -c "import json;print(' '.join(json.load(open('$d/meta.json'))['properties']))")
  ./refaccheck.sh "$d/" $ps
}
export -f one
ls -d $PWD/refactorings/${2:-}*/ | sed 's|/$||' | xargs -P ${1:-1} -I{} bash -c 'one {}'
