#!/bin/bash
# usage: seedcheck.sh <seed-dir containing patch.diff demo_test.go.txt meta.json> <property> [more properties...]
# Confirms a seeded change (builds, existing tests of touched packages pass, demo fails with / passes without)
# and runs the property checks against it. Prints one JSON line.
SEED="$1"; shift
export GOFLAGS=-mod=mod GOPROXY=off GOSUMDB=off GOTOOLCHAIN=local
WT=$(mktemp -d /tmp/seedchk-XXXXXX)
cleanup() { git -C /repo worktree remove --force "$WT" >/dev/null 2>&1; rm -rf "$WT"; }
trap cleanup EXIT
git -C /repo worktree add --detach "$WT" HEAD >/dev/null 2>&1
cd "$WT"
if ! git apply --check "$SEED/patch.diff" 2>/dev/null; then echo "{\"seed\":\"$SEED\",\"error\":\"patch does not apply\"}"; exit 0; fi
PKGS=$(grep '^+++ b/' "$SEED/patch.diff" | sed 's|^+++ b/||' | xargs -n1 dirname | sort -u | sed 's|^|./|')
DEMOPKG=$(head -3 "$SEED/demo_test.go.txt" | grep -o 'place in: *[^ ]*' | sed 's/place in: *//')
RACE=""; head -5 "$SEED/demo_test.go.txt" | grep -q -- '-race' && RACE="-race"
git apply "$SEED/patch.diff"
BUILD=ok; go build ./... >/dev/null 2>&1 || BUILD=fail
TESTS=ok; go test -vet=off -count=1 $PKGS 2>&1 | grep -v "codegen" | grep -q "^FAIL\|^--- FAIL" && TESTS=fail
cp "$SEED/demo_test.go.txt" "$DEMOPKG/zz_demo_test.go"
DEMO_WITH=pass; go test -vet=off -count=1 $RACE -run 'Seed|Demo|TestX' "./$DEMOPKG" >/dev/null 2>&1 || DEMO_WITH=fail
rm "$DEMOPKG/zz_demo_test.go"
git checkout -- . >/dev/null 2>&1
cp "$SEED/demo_test.go.txt" "$DEMOPKG/zz_demo_test.go"
DEMO_WITHOUT=pass; go test -vet=off -count=1 $RACE -run 'Seed|Demo|TestX' "./$DEMOPKG" >/dev/null 2>&1 || DEMO_WITHOUT=fail
rm "$DEMOPKG/zz_demo_test.go"
git apply "$SEED/patch.diff"
RES=""
for P in "$@"; do
  OUT=$(GOAVC_REPO="$WT" /verif/bin/goavc check --property $P 2>&1); EC=$?
  OBL=$(echo "$OUT" | grep "failed obligation" | sed 's/.*failed obligation \([^ ]*\).*/\1/' | tr '\n' ',' )
  NOINP=$(echo "$OUT" | grep -c "no-failing-input-found")
  RES="$RES{\"property\":\"$P\",\"exit\":$EC,\"failed\":\"$OBL\",\"no_input\":$NOINP},"
done
echo "{\"seed\":\"$SEED\",\"build\":\"$BUILD\",\"tests\":\"$TESTS\",\"demo_with_patch\":\"$DEMO_WITH\",\"demo_without_patch\":\"$DEMO_WITHOUT\",\"checks\":[${RES%,}]}"
