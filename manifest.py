#!/usr/bin/env python3
"""Regenerates MANIFEST.json from the table below (kept valid at all times)."""
import json, subprocess
props=[json.loads(l)['id'] for l in open('/verif/properties.jsonl')]
LEVEL_NOTE=("Trusted: the goavc VC generator, go/ssa v0.29.0, the SMT solvers, and every assumed contract for a dependency "
 "(/verif/models/*.spec; listed per run in the evidence). Integers are mathematical, execution is sequential, termination is not proved.")
T=("contract-based deductive verification: WP-style VC generation over go/ssa of the real /repo functions against contracts kept in build-tagged comment files, "
   "obligations discharged by z3 4.8.12 / z3 5.1.0 / cvc5 1.0; when an edited function no longer fits its loop invariants the function is decided by a bounded stand-in "
   "(every loop unrolled, at most 4 entries per loop head), printed as BOUNDED and never counted as proved")
claimed={
 "C01": dict(text="Necessary conditions only, for two mechanisms: NameScope.Unique/HashedUnique never return an identifier that is already in use and record it (whole-map postconditions, so two calls cannot collide; same hash gives the same name), and fixReservedGo never returns a Go keyword, predeclared identifier or imported package name, and every non-empty identifier Goify returns has passed through it (or is one of the two fixed defaults); the validation generator names runtime format constants that exist (constant); example lengths are never negative (NewLength, found and fixed a crash of example generation). That every accepted design generates code that compiles (templates, type-correctness of emitted Go) cannot be stated as a contract and is not claimed.",
             ref="§3 C01", technique=T),
 "C02": dict(text="Necessary conditions only, on the design-model and runtime functions the round trip rests on: the attribute-name / wire-name tables of a mapped attribute are read and written consistently (ElemName, KeyName, Map, Remap, DupMappedAtt: what one table records the other inverts, so KeyName(ElemName(k)) = k), an attribute moved to a header/parameter/cookie is removed from the body object and its required list exactly (Object.Delete, RemoveRequired, removeAttributes), and path variables are captured decoded once under their registered name (the router contracts of C16). That the generated client encoder and server decoder are inverse for every design is a property of generated programs and is not claimed.",
             ref="§3 C02", technique=T),
 "C05": dict(text="Runtime half: the default error encoder writes exactly one header and one body, the status is the one the response object reports, plain errors become a 500 fault, service errors map through the flag table, decoding-error constructors give 400/415 (lemmas over the table). Design half: HTTPEndpointExpr.Prepare builds the endpoint's error table so that it only grows and an entry is appended only for a name not mapped yet (the endpoint's own mapping wins over the service's and the API's), copies keep name and status. The generated per-error encoders/decoders are generated code and are not covered.",
             ref="§3 C05", technique=T),
 "C06": dict(text="Design/runtime half only: requirement inheritance and override in MethodExpr.Finalize (NoSecurity clears, own requirements win, service then API requirements are copied element-wise by copyReqs), scope validation (a scheme validates exactly when every required scope is presented), and the generator's per-method requirement data lists every scheme of each requirement with its own scopes (SchemesData.Append, buildMethodData). The generated endpoint wrappers (any-requirement/all-schemes evaluation, credential extraction) are generated code and are not covered.",
             ref="§3 C06", technique=T),
 "C09": dict(text="Three mechanisms only: (1) every range over a map in the generator packages (codegen, codegen/service, codegen/generator, http/codegen, http/codegen/openapi and /v2 /v3) and in the structural hash is proved independent of the iteration order (commutativity of the loop body, or keys collected and sorted before use) or is listed in a per-package census as not proved; a map range that is neither is a violation, (2) File.Render leaves an existing SkipExist file untouched (ghost file-system model: no mkdir/open/write reached) and every example scaffold builder returns a file marked SkipExist, (3) comparators handed to sort.Slice order the slice being sorted. Template rendering, directory clean-up and process-level repeatability are not covered.",
             ref="§3 C09", technique=T),
 "C10": dict(text="Two mechanisms only: design validation accepts a gRPC message only when every (non-union) attribute has a field number and no number is used twice (validateRPCTags), the proto generator emits the number validation checked (rpcTag reads the last rpc:tag through FieldTag), and the runtime unary handler invokes the endpoint only after the request decoder accepted the message, with the decoded request (rejected messages never reach user code). Well-formedness of the emitted .proto text and the generated conversion code are not covered (protoc absent, generated programs).",
             ref="§3 C10", technique=T),
 "C11": dict(text="RunDSL: the four phases are global (ghost phase automaton: every WalkSets/prepare/validate/finalize call-site precondition is a barrier obligation), every root registered before the run completes all four phases when nil is returned, finalization never starts on a failed design. The set runners (runSet, prepareSet, validateSet, finalizeSet) are verified; Roots() is proved to report a root that depends on itself and to list every registered root (under stated preconditions: names identify roots, dependencies are registered); the WalkSets callbacks are assumed contracts; dependency order and longer cycles of Roots() have a bounded stand-in (all digraphs <= 4 roots x all registration orders), labelled bounded and not counted as proved.",
             ref="§3 C11", technique=T+"; bounded exhaustive execution for Roots()"),
 "C13": dict(text="Stated parts: permutation invariance of the hash (the comparators handed to sort.Slice are strict orders by attribute name, the slices hashObject/hashUnion range over are in ascending name order and as long as the declared list, and every iteration appends exactly separator+name+separator+hash(type, same flags): per-iteration relations, the fold follows by induction on the iteration count, which is not machine checked), run-to-run determinism (no order-dependent map range), every attribute DupType installs in a copied array/map/union/object/user type is one produced by DupAttribute (store and call-site discipline on the real body), freshness of every node DupAttribute / ValidationExpr.Dup / MetaExpr.Dup allocate and their frames (nothing pre-existing is written). DupType is verified against a memo-table invariant (every memoised type is a copy made by this dupper, keyed by type ID); Equal is defined through the hash; the recursive hash dispatcher is assumed to be a function of its arguments (the dispatch itself, same flags to every composite case, is proved). No global injectivity of the hash, no termination.",
             ref="§3 C13", technique=T),
 "C14": dict(text="Schema side only: the JSON-schema keywords written by initAttributeValidation (OpenAPI 2) and by the validation tail of schemafy (OpenAPI 3) mirror the design's validation keyword for keyword (enum, format, pattern, inclusive/exclusive bounds with the same pointer, i.e. the same number and sense) and length bounds land on the keyword that applies to the kind of value; the OpenAPI 2 required list receives, in order, exactly the required names of the design that are not excluded from generation (per-iteration relation; MustGenerate is proved to read the last generate flag); every OpenAPI 3 path/query/header/cookie parameter mirrors the name, location and required flag the server's decoder data is built from (paramFor, the walker closures, WalkMappedAttr, QueryParams, generatedRequiredValidation), and a user type is documented by reference only under its structural hash. That the server accepts exactly the documented inputs (C04 side) is not decided.",
             ref="§3 C14", technique=T),
 "C15": dict(text="Encoder/decoder agreement through the Content-Type header actually set, JSON fall-back, non-nil encoder, request decoder selection and 415 chain, proved for all header/context values against an uninterpreted mime.ParseMediaType with audited axioms.",
             ref="§3 C15", technique=T),
 "C16": dict(text="goa's layer of the router: every value stored by Vars is the captured segment decoded exactly once under its registered name, wildcard rewrite and ResolvePattern are inverse (string-theory lemma), Handle registers the rewritten pattern, the not-found handler writes one 404 fault body. chi's dispatch is an assumed contract.",
             ref="§3 C16", technique=T),
 "C19": dict(text="Request-ID selection/truncation/non-emptiness for the HTTP middleware closure and the gRPC helper, trace keep/parent/fresh-span and untraced pass-through (HTTP and gRPC), client-side propagation, fixed sampler exact at 0 and 100, response capture status/byte invariants. Adaptive sampler (floats, atomics, time) excluded.",
             ref="§3 C19", technique=T),
 "C20": dict(text="Sequential discipline whose conjunction implies race freedom of the runtime helpers: frame obligations (no store to captured variables or globals) for per-request closures and lock-state obligations for mutex-protected state. Real schedules and generated servers are not addressed.",
             ref="§3 C20", technique=T),
 "C17": dict(text="Sequential part: ValidateFormat dispatches every format to its own parser and its verdict is exactly that parser's (uninterpreted acceptance predicates), IP = IPv4 xor IPv6, regex-defined formats compared with specification languages in the SMT regular-expression theory (literal re-extracted from the source each run), ValidatePattern's cache invariant makes the verdict a function of (pattern, value) and every cache access happens under the lock in the right mode.",
             ref="§3 C17", technique=T),
 "C18": dict(text="Every obligation is a verification condition generated from the SSA of the real functions (MergeErrors, asError, History, StatusCode, ...) against contracts whose ★ clauses are transcribed from the property (merge algebra, status table); discharged for all inputs by z3/cvc5.",
             ref="§3 C18", technique=T),
}
na={
 "C03": "Same as C02 for responses and errors: the property is about generated encoder/decoder pairs, not about a function of /repo that can carry a contract. The runtime pieces it rests on (ErrorResponse status table, encoder selection) are decided under C05 and C15.",
 "C04": "The validation code whose acceptance set the property describes is emitted text (codegen/validation.go builds Go source with templates). The runtime validators it calls are decided under C17 and the error constructors under C05; a contract over the emitted text would need a verifier for the generated programs per design, which was not built.",
 "C07": "Relates the output of two generators (OpenAPI 2 and 3 documents) and an external schema validator over all designs; it is a relation between two whole-program outputs, not a postcondition of one function.",
 "C08": "Result-type projection (expr.Project) is recursive, memoised through string hashes, runs DSL through eval.Execute and the property also covers generated view code; outside the subset (deep recursion over cyclic graphs with global registries) and partly about generated programs.",
 "C12": "Whole-program panic freedom and termination of dsl/ + expr/ evaluation for every DSL program: termination is not proved by this verifier, and the property quantifies over all call sequences of ~200 DSL functions sharing global state, not over one function or data structure.",
}
default_na="no contract within reach decides this property"
def commits():
    try:
        out=subprocess.check_output(['git','-C','/repo','log','--format=%H %s']).decode().splitlines()
        return [l.split()[0] for l in out if l.split(' ',1)[1].startswith('verif:')]
    except Exception:
        return []
m={"version":1,"setup_cmd":"./build.sh",
 "hooks":{"guard":"verif","enable":"go build -tags verif (the only guarded files are comment-only verif_contracts.go contract files)",
          "baseline_off_cmd":"cd /repo && go test -mod=mod -vet=off -count=1 -timeout 25m ./...","source_commits":commits(),"add_only":True},
 "engines":[{"name":"goavc","path":"goavc/","serves_properties":sorted(claimed),"kind_free_text":"weakest-precondition style VC generator over go/ssa (naive form) of the real /repo functions; contracts in build-tagged comment files; obligations raced on z3 4.8.12, z3 5.1.0 and cvc5 1.0"}],
 "checks":[],"notes":"see DESIGN.md","not_applicable":[]}
for p in props:
    if p in claimed:
        c=claimed[p]
        m["checks"].append({"property_id":p,"quick_cmd":f"./bin/goavc check --property {p} --tier quick",
          "thorough_cmd":f"./bin/goavc check --property {p} --tier thorough","evidence_file":f"evidence/{p}.json",
          "replay_cmd_template":"./bin/goavc replay {path}","engine":"goavc",
          "level_claimed":{"category":"proof","text":c["text"],"design_ref":c["ref"]},"level_note":LEVEL_NOTE,"technique":c["technique"]})
    else:
        m["not_applicable"].append({"property_id":p,"reason":na.get(p,default_na)})
json.dump(m,open('/verif/MANIFEST.json','w'),indent=1)
print("claimed:",sorted(claimed))
