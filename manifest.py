#!/usr/bin/env python3
"""Regenerates MANIFEST.json from the table below (kept valid at all times)."""
import json, subprocess
props=[json.loads(l)['id'] for l in open('/verif/properties.jsonl')]
LEVEL_NOTE=("Trusted: the goavc VC generator, go/ssa v0.29.0, the SMT solvers, and every assumed contract for a dependency "
 "(/verif/models/*.spec; listed per run in the evidence). Integers are mathematical, execution is sequential, termination is not proved.")
claimed={
 "C18": dict(text="Every obligation is a verification condition generated from the SSA of the real functions (MergeErrors, asError, History, StatusCode, ...) against contracts whose ★ clauses are transcribed from the property (merge algebra, status table); discharged for all inputs by z3/cvc5.",
             ref="§3 C18", technique="contract-based deductive verification: WP-style VC generation over go/ssa + SMT (z3, cvc5)"),
}
na={
}
default_na="not built yet"
def commits():
    try:
        out=subprocess.check_output(['git','-C','/repo','log','--format=%H %s']).decode().splitlines()
        return [l.split()[0] for l in out if l.split(' ',1)[1].startswith('verif:')]
    except Exception:
        return []
m={"version":1,"setup_cmd":"./build.sh",
 "hooks":{"guard":"verif","enable":"go build -tags verif (the only guarded files are comment-only verif_contracts.go contract files)",
          "baseline_off_cmd":"cd /repo && go test -mod=mod -vet=off -count=1 -timeout 25m ./...","source_commits":commits(),"add_only":True},
 "engines":[{"name":"goavc","path":"goavc/","serves_properties":sorted(claimed),"kind_free_text":"weakest-precondition style VC generator over go/ssa (naive form) of the real /repo functions; contracts in build-tagged comment files; obligations raced on z3 4.8.12, z3 5.1.0 and cvc5 1.0"}],
 "checks":[],"notes":"see DESIGN.md","not_applicable":[]}
for p in props:
    if p in claimed:
        c=claimed[p]
        m["checks"].append({"property_id":p,"quick_cmd":f"./bin/goavc check --property {p} --tier quick",
          "thorough_cmd":f"./bin/goavc check --property {p} --tier thorough","evidence_file":f"evidence/{p}.json",
          "replay_cmd_template":"./bin/goavc replay {path}","engine":"goavc",
          "level_claimed":{"category":"proof","text":c["text"],"design_ref":c["ref"]},"level_note":LEVEL_NOTE,"technique":c["technique"]})
    else:
        m["not_applicable"].append({"property_id":p,"reason":na.get(p,default_na)})
json.dump(m,open('/verif/MANIFEST.json','w'),indent=1)
print("claimed:",sorted(claimed))
