package main

import (
	"fmt"
	"go/token"
	"sort"
	"strings"

	"golang.org/x/tools/go/ssa"
)

// Contracts live beside the code, not in it, so a rename of a parameter or a
// local must not invalidate them:
//
//   - "params a b c" binds the contract's parameter names by position;
//   - "locals x y z" lists, in declaration order, the locals the contract's
//     loop invariants and assertions mention. When one of them no longer
//     exists in the body, the contract's name is bound to one of the body's
//     locals the clause does not know; an invariant is only a proof hint, so
//     any binding under which every obligation discharges is a proof. The
//     candidates are tried order-preserving first, at most maxAliasTries.
const maxAliasTries = 12

var pseudoLocal = map[string]bool{"complit": true, "varargs": true, "slicelit": true, "makeslice": true, "makemap": true, "makechan": true, "new": true, "": true, "rangeindex": true, "rangeiter": true}

// namedLocals lists the named locals of fn in order of appearance.
func namedLocals(fn *ssa.Function) []string {
	var out []string
	seen := map[string]bool{}
	for _, b := range fn.Blocks {
		for _, ins := range b.Instrs {
			a, ok := ins.(*ssa.Alloc)
			if !ok || pseudoLocal[a.Comment] || !token.IsIdentifier(a.Comment) || seen[a.Comment] {
				continue
			}
			seen[a.Comment] = true
			out = append(out, a.Comment)
		}
	}
	return out
}

func aliasCandidates(fn *ssa.Function, ct *Contract) []map[string]string {
	have := map[string]bool{}
	locals := namedLocals(fn)
	for _, n := range locals {
		have[n] = true
	}
	for _, p := range fn.Params {
		have[p.Name()] = true
	}
	listed := map[string]bool{}
	var missing []string
	for _, n := range ct.Locals {
		listed[n] = true
		if !have[n] {
			missing = append(missing, n)
		}
	}
	if len(missing) == 0 {
		return nil
	}
	paramName := map[string]bool{}
	for _, p := range fn.Params {
		paramName[p.Name()] = true
	}
	var fresh []string
	for _, n := range locals {
		if !listed[n] && !paramName[n] {
			fresh = append(fresh, n)
		}
	}
	if len(fresh) < len(missing) {
		return nil
	}
	var out []map[string]string
	// order-preserving injections first
	var rec func(i, from int, cur []string)
	rec = func(i, from int, cur []string) {
		if len(out) >= 4*maxAliasTries {
			return
		}
		if i == len(missing) {
			m := map[string]string{}
			for k, n := range missing {
				m[n] = cur[k]
			}
			out = append(out, m)
			return
		}
		for j := from; j < len(fresh); j++ {
			rec(i+1, j+1, append(cur[:len(cur):len(cur)], fresh[j]))
		}
	}
	rec(0, 0, nil)
	// then the remaining injections
	seen := map[string]bool{}
	key := func(m map[string]string) string {
		var ks []string
		for k, v := range m {
			ks = append(ks, k+"="+v)
		}
		sort.Strings(ks)
		return strings.Join(ks, ",")
	}
	for _, m := range out {
		seen[key(m)] = true
	}
	var perm func(i int, used map[string]bool, cur map[string]string)
	perm = func(i int, used map[string]bool, cur map[string]string) {
		if len(out) >= 8*maxAliasTries {
			return
		}
		if i == len(missing) {
			m := map[string]string{}
			for k, v := range cur {
				m[k] = v
			}
			if !seen[key(m)] {
				seen[key(m)] = true
				out = append(out, m)
			}
			return
		}
		for _, f := range fresh {
			if used[f] {
				continue
			}
			used[f] = true
			cur[missing[i]] = f
			perm(i+1, used, cur)
			delete(cur, missing[i])
			used[f] = false
		}
	}
	perm(0, map[string]bool{}, map[string]string{})
	return out
}

// verifyFunctionRenamed is verifyFunction plus the search for a binding of
// renamed locals. It returns an unsolved report.
func verifyFunctionRenamed(l *Loaded, specs *Specs, ct *Contract, timeout, seed int) (*FuncReport, *World) {
	rep, w := verifyFunction(l, specs, ct)
	if rep.Unsupported == "" || !strings.HasPrefix(rep.Unsupported, "unknown identifier") || len(ct.Locals) == 0 {
		return rep, w
	}
	sp := l.SPkgs[ct.Pkg]
	if sp == nil {
		return rep, w
	}
	fn := allFunctions(l, sp)[ct.Name]
	if fn == nil {
		return rep, w
	}
	tries := 0
	var firstRep *FuncReport
	var firstAlias map[string]string
	for _, al := range aliasCandidates(fn, ct) {
		r2, w2 := verifyFunctionAliased(l, specs, ct, al)
		if r2.Unsupported != "" {
			continue // ill-sorted under this binding
		}
		tries++
		if tries > maxAliasTries {
			break
		}
		if firstRep == nil {
			firstRep, firstAlias = r2, al
		}
		solveAll(w2, r2.Obls, timeout, seed)
		good := true
		for _, o := range r2.Obls {
			if !o.ok() && !(o.Clause != nil && o.Clause.Withdrawn) && !o.KnownFailing {
				good = false
				break
			}
		}
		if good {
			r3, w3 := verifyFunctionAliased(l, specs, ct, al)
			r3.Renamed = aliasString(al)
			return r3, w3
		}
	}
	if firstRep != nil {
		// no binding proves everything: report the failures under the most
		// plausible one rather than "outside the subset"
		r3, w3 := verifyFunctionAliased(l, specs, ct, firstAlias)
		r3.Renamed = aliasString(firstAlias)
		return r3, w3
	}
	return rep, w
}

func aliasString(al map[string]string) string {
	var ks []string
	for k, v := range al {
		ks = append(ks, fmt.Sprintf("%s:=%s", k, v))
	}
	sort.Strings(ks)
	return strings.Join(ks, " ")
}

// cmdNames prints, for every func contract, the parameter names and named
// locals of its target (used by tools/annotate_names.py to write the
// params/locals clauses).
func cmdNames(args []string) {
	defer cleanupScratch()
	l, err := loadPackages(args, nil)
	if err != nil {
		fmt.Println("error:", err)
		return
	}
	specs, err := loadAllSpecs(l, modelsDir())
	if err != nil {
		fmt.Println("error:", err)
		return
	}
	var keys []string
	for k := range specs.Contracts {
		keys = append(keys, k)
	}
	sort.Strings(keys)
	for _, k := range keys {
		ct := specs.Contracts[k]
		if ct.Kind != "func" {
			continue
		}
		sp := l.SPkgs[ct.Pkg]
		if sp == nil {
			continue
		}
		fn := allFunctions(l, sp)[ct.Name]
		if fn == nil {
			continue
		}
		var ps []string
		for _, p := range fn.Params {
			ps = append(ps, p.Name())
		}
		fmt.Printf("%s\t%s\t%s\t%s\n", ct.File, ct.Name, strings.Join(ps, " "), strings.Join(namedLocals(fn), " "))
	}
}
