package main

import (
	"fmt"
	"go/token"
	"go/types"
	"sort"
	"strings"
	"time"

	"golang.org/x/tools/go/ssa"
)

// Contracts live beside the code, not in it, so a rename of a parameter or a
// local must not invalidate them:
//
//   - "params a b c" binds the contract's parameter names by position;
//   - "locals x y z" lists, in declaration order, the locals the contract's
//     loop invariants and assertions mention. When one of them no longer
//     exists in the body, the contract's name is bound to one of the body's
//     locals the clause does not know; an invariant is only a proof hint, so
//     any binding under which every obligation discharges is a proof. The
//     candidates are tried order-preserving first, at most maxAliasTries.
const maxAliasTries = 12

var pseudoLocal = map[string]bool{"complit": true, "varargs": true, "slicelit": true, "makeslice": true, "makemap": true, "makechan": true, "new": true, "": true, "rangeindex": true, "rangeiter": true}

// localInfo is one named local of a function body: its name ("x", or "x#2" for the second variable of
// that name in allocation order) and its type.
type localInfo struct {
	Name, Type string
}

func typeKey(t types.Type) string {
	return strings.ReplaceAll(types.TypeString(t, func(p *types.Package) string { return p.Name() }), " ", "")
}

// bodyLocals lists the named locals of fn in order of appearance.
func bodyLocals(fn *ssa.Function) []localInfo {
	var out []localInfo
	seen := map[string]int{}
	isParam := map[string]bool{}
	for _, p := range fn.Params {
		isParam[p.Name()] = true
	}
	for _, b := range fn.Blocks {
		for _, ins := range b.Instrs {
			a, ok := ins.(*ssa.Alloc)
			if !ok || pseudoLocal[a.Comment] || !token.IsIdentifier(a.Comment) {
				continue
			}
			if isParam[a.Comment] && seen[a.Comment] == 0 && b.Index == 0 {
				// the spill slot of a parameter (bound by position through "params")
				seen[a.Comment]++
				continue
			}
			seen[a.Comment]++
			n := a.Comment
			if seen[a.Comment] > 1 {
				n = fmt.Sprintf("%s#%d", a.Comment, seen[a.Comment])
			}
			out = append(out, localInfo{n, typeKey(deref(a.Type()))})
		}
	}
	return out
}

func namedLocals(fn *ssa.Function) []string {
	var out []string
	for _, l := range bodyLocals(fn) {
		out = append(out, l.Name)
	}
	return out
}

func aliasKey(m map[string]string) string {
	var ks []string
	for k, v := range m {
		if k != v {
			ks = append(ks, k+"="+v)
		}
	}
	sort.Strings(ks)
	return strings.Join(ks, ",")
}

// aliasCandidates proposes bindings of the contract's local names to the body's locals, most plausible
// first. The contract lists its target's locals with their types in declaration order ("locals a:T b:U");
// per type, when the body declares as many locals as the contract lists, they correspond by position (a pure
// rename, whatever the new names are); otherwise the names both sides know keep their meaning and the
// contract's remaining names are bound to the body's remaining locals of that type, order-preserving
// injections first. The identity binding is not among the candidates.
func aliasCandidates(fn *ssa.Function, ct *Contract) []map[string]string {
	body := bodyLocals(fn)
	if len(ct.Locals) == 0 {
		return nil
	}
	same := len(body) == len(ct.Locals)
	if same {
		for i, l := range body {
			if l.Name != ct.Locals[i] || (ct.LocalTypes[l.Name] != "" && ct.LocalTypes[l.Name] != l.Type) {
				same = false
			}
		}
	}
	if same {
		return nil
	}
	paramName := map[string]bool{}
	for _, p := range fn.Params {
		paramName[p.Name()] = true
	}
	// group by type ("" = untyped legacy entry: any type)
	typed := true
	for _, n := range ct.Locals {
		if ct.LocalTypes[n] == "" {
			typed = false
		}
	}
	type group struct{ c, b []string }
	groups := map[string]*group{}
	var order []string
	grp := func(t string) *group {
		if groups[t] == nil {
			groups[t] = &group{}
			order = append(order, t)
		}
		return groups[t]
	}
	for _, n := range ct.Locals {
		t := ct.LocalTypes[n]
		if !typed {
			t = ""
		}
		g := grp(t)
		g.c = append(g.c, n)
	}
	for _, l := range body {
		t := l.Type
		if !typed {
			t = ""
		}
		if groups[t] == nil {
			continue
		}
		g := grp(t)
		g.b = append(g.b, l.Name)
	}
	// per group: list of alternative partial bindings, most plausible first
	var alts [][]map[string]string
	for _, t := range order {
		g := groups[t]
		var opts []map[string]string
		add := func(m map[string]string) {
			k := aliasKey(m)
			for _, o := range opts {
				if aliasKey(o) == k {
					return
				}
			}
			opts = append(opts, m)
		}
		if len(g.c) == len(g.b) && typed {
			m := map[string]string{}
			for i := range g.c {
				m[g.c[i]] = g.b[i]
			}
			add(m)
		}
		inB := map[string]bool{}
		for _, n := range g.b {
			inB[n] = true
		}
		inC := map[string]bool{}
		for _, n := range g.c {
			inC[n] = true
		}
		var missing, fresh []string
		keep := map[string]string{}
		for _, n := range g.c {
			if inB[n] {
				keep[n] = n
			} else {
				missing = append(missing, n)
			}
		}
		for _, n := range g.b {
			if !inC[n] && !paramName[n] {
				fresh = append(fresh, n)
			}
		}
		if len(missing) == 0 {
			add(keep)
		} else if len(fresh) >= len(missing) {
			var rec func(i, from int, cur []string)
			rec = func(i, from int, cur []string) {
				if len(opts) >= 6 {
					return
				}
				if i == len(missing) {
					m := map[string]string{}
					for k, v := range keep {
						m[k] = v
					}
					for k, n := range missing {
						m[n] = cur[k]
					}
					add(m)
					return
				}
				for j := from; j < len(fresh); j++ {
					rec(i+1, j+1, append(cur[:len(cur):len(cur)], fresh[j]))
				}
			}
			rec(0, 0, nil)
			var perm func(i int, used map[string]bool, cur map[string]string)
			perm = func(i int, used map[string]bool, cur map[string]string) {
				if len(opts) >= 10 {
					return
				}
				if i == len(missing) {
					m := map[string]string{}
					for k, v := range keep {
						m[k] = v
					}
					for k, v := range cur {
						m[k] = v
					}
					add(m)
					return
				}
				for _, f := range fresh {
					if used[f] {
						continue
					}
					used[f] = true
					cur[missing[i]] = f
					perm(i+1, used, cur)
					delete(cur, missing[i])
					used[f] = false
				}
			}
			perm(0, map[string]bool{}, map[string]string{})
		} else {
			// fewer locals of this type than the contract names: the names both sides know keep their meaning
			add(keep)
		}
		if len(opts) == 0 {
			opts = append(opts, map[string]string{})
		}
		alts = append(alts, opts)
	}
	// combine: first choice everywhere, then vary one group at a time, then the rest of the product
	var out []map[string]string
	seen := map[string]bool{"": true}
	emit := func(choice []int) {
		m := map[string]string{}
		for gi, ci := range choice {
			for k, v := range alts[gi][ci] {
				m[k] = v
			}
		}
		k := aliasKey(m)
		if !seen[k] {
			seen[k] = true
			out = append(out, m)
		}
	}
	base := make([]int, len(alts))
	emit(base)
	for gi := range alts {
		for ci := 1; ci < len(alts[gi]); ci++ {
			c := append([]int(nil), base...)
			c[gi] = ci
			emit(c)
		}
	}
	var prod func(gi int, c []int)
	prod = func(gi int, c []int) {
		if len(out) >= 8*maxAliasTries {
			return
		}
		if gi == len(alts) {
			emit(append([]int(nil), c...))
			return
		}
		for ci := range alts[gi] {
			prod(gi+1, append(c, ci))
		}
	}
	prod(0, nil)
	return out
}

// verifyFunctionRenamed is verifyFunction plus the search for a binding of
// renamed locals. It returns an unsolved report.
func verifyFunctionRenamed(l *Loaded, specs *Specs, ct *Contract, timeout, seed int) (*FuncReport, *World) {
	sp := l.SPkgs[ct.Pkg]
	var fn *ssa.Function
	if sp != nil {
		fn = allFunctions(l, sp)[ct.Name]
	}
	var cands []map[string]string
	if fn != nil && len(ct.Locals) > 0 {
		cands = aliasCandidates(fn, ct)
	}
	if len(cands) == 0 {
		return verifyFunction(l, specs, ct)
	}
	// the body's locals are not the ones the contract lists: the identity binding is tried after the first
	// candidate (by position) when every name the contract mentions still exists, before it otherwise
	proves := func(r *FuncReport, w *World) bool {
		if r.Unsupported != "" {
			return false
		}
		// a binding that fits proves as fast as the unchanged function does (every obligation answers within a few
		// seconds); a wrong one is given little time to fail
		t := timeout
		if t > 10 {
			t = 10
		}
		solveAll(w, r.Obls, t, seed)
		for _, o := range r.Obls {
			if !o.ok() && !(o.Clause != nil && o.Clause.Withdrawn) && !o.KnownFailing {
				return false
			}
		}
		return true
	}
	all := append([]map[string]string{cands[0], nil}, cands[1:]...)
	tries := 0
	started := time.Now()
	noRetry = true
	defer func() { noRetry = false }()
	var firstRep *FuncReport
	var firstAlias map[string]string
	haveFirst := false
	for _, al := range all {
		r2, w2 := verifyFunctionAliased(l, specs, ct, al)
		if r2.Unsupported != "" {
			continue // ill-sorted under this binding
		}
		tries++
		if tries > maxAliasTries || (tries > 2 && time.Since(started) > 240*time.Second) {
			break // budget of the search: twelve bindings or four minutes
		}
		if !haveFirst {
			firstRep, firstAlias, haveFirst = r2, al, true
		}
		if proves(r2, w2) {
			r3, w3 := verifyFunctionAliased(l, specs, ct, al)
			r3.Renamed = aliasString(al)
			r3.Alias = al
			return r3, w3
		}
	}
	if firstRep != nil {
		// no binding proves everything: report the failures under the most
		// plausible one rather than "outside the subset"
		r3, w3 := verifyFunctionAliased(l, specs, ct, firstAlias)
		r3.Renamed = aliasString(firstAlias)
		r3.Alias = firstAlias
		return r3, w3
	}
	return verifyFunction(l, specs, ct)
}

func aliasString(al map[string]string) string {
	var ks []string
	for k, v := range al {
		if k != v {
			ks = append(ks, fmt.Sprintf("%s:=%s", k, v))
		}
	}
	sort.Strings(ks)
	return strings.Join(ks, " ")
}

// cmdNames prints, for every func contract, the parameter names and named
// locals of its target (used by tools/annotate_names.py to write the
// params/locals clauses).
func cmdNames(args []string) {
	defer cleanupScratch()
	l, err := loadPackages(args, nil)
	if err != nil {
		fmt.Println("error:", err)
		return
	}
	specs, err := loadAllSpecs(l, modelsDir())
	if err != nil {
		fmt.Println("error:", err)
		return
	}
	var keys []string
	for k := range specs.Contracts {
		keys = append(keys, k)
	}
	sort.Strings(keys)
	for _, k := range keys {
		ct := specs.Contracts[k]
		if ct.Kind != "func" {
			continue
		}
		sp := l.SPkgs[ct.Pkg]
		if sp == nil {
			continue
		}
		fn := allFunctions(l, sp)[ct.Name]
		if fn == nil {
			continue
		}
		var ps []string
		for _, p := range fn.Params {
			ps = append(ps, p.Name())
		}
		var ls, fvs []string
		for _, li := range bodyLocals(fn) {
			ls = append(ls, li.Name+":"+li.Type)
		}
		for _, fv := range fn.FreeVars {
			fvs = append(fvs, fv.Name()+":"+typeKey(deref(fv.Type())))
		}
		// rangeindex ordinal -> loop ordinal
		var ris []string
		li := analyzeLoops(fn)
		n := 0
		for _, b := range fn.Blocks {
			for _, ins := range b.Instrs {
				if a, ok := ins.(*ssa.Alloc); ok && a.Comment == "rangeindex" {
					n++
					for h, k := range li.isHeader {
						if rangeIndexAlloc(h) == a {
							ris = append(ris, fmt.Sprintf("%d=%d", n, k))
						}
					}
				}
			}
		}
		fmt.Printf("%s\t%s\t%s\t%s\t%s\t%s\n", ct.File, ct.Name, strings.Join(ps, " "), strings.Join(ls, " "), strings.Join(fvs, " "), strings.Join(ris, " "))
	}
}
