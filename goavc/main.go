package main

import (
	"fmt"
	"os"
)

func main() {
	if len(os.Args) < 2 {
		fmt.Fprintln(os.Stderr, "usage: goavc dump|check|replay ...")
		os.Exit(2)
	}
	switch os.Args[1] {
	case "dump":
		cmdDump(os.Args[2:])
	case "names":
		cmdNames(os.Args[2:])
	case "verify":
		cmdVerify(os.Args[2:])
	case "sweepdet":
		cmdSweepDet(os.Args[2:])
	case "check":
		cmdCheck(os.Args[2:])
	case "replay":
		cmdReplay(os.Args[2:])
	default:
		fmt.Fprintln(os.Stderr, "unknown command")
		os.Exit(2)
	}
}
