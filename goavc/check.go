package main

import (
	"fmt"
	"go/types"
	"os"
	"path/filepath"
	"regexp"
	"sort"
	"strings"
	"sync"
	"time"

	"golang.org/x/tools/go/ssa"
)

// FuncReport is the outcome of verifying one function under contract.
type FuncReport struct {
	Pkg, Name   string
	Contract    *Contract
	Obls        []*Obligation
	Unsupported string
	Renamed     string // binding of renamed locals found by verifyFunctionRenamed
	Alias       map[string]string
	SetAside    []string // helper invariants that could not be evaluated on this body any more
	Bounded     int      // > 0: the obligations come from the bounded stand-in (loops unrolled, see unrollLoop)
	BoundedWhy  string
	BoundedCuts int
	Assumptions []string
	Havocked    []string
	Inlined     []string
	Used        []string
	Ms          int64
}

func (w *World) specialCall(fr *Frame, st *State, c *ssa.CallCommon, fn *ssa.Function, args []*Val, ins *ssa.Call) bool {
	if fn == nil {
		return false
	}
	switch fn.String() {
	case "sort.Slice", "sort.SliceStable":
		w.sortSliceCall(fr, st, fn.String(), args)
		if ins != nil {
			fr.vals[ins] = &Val{Typ: c.Signature().Results()}
		}
		return true
	}
	return false
}

// sortSliceCall applies the contract of sort.Slice(x, less). Its
// precondition is that less orders the elements of the slice being sorted:
// the verdict of less(i, j) must be a function of the two elements currently
// at i and j (and must be asymmetric). It is checked by evaluating the
// comparator's real body in two states in which the slice holds arbitrary
// contents: whenever the elements at the compared positions agree, the
// verdicts must agree. A comparator that indexes another slice fails this.
func (w *World) sortSliceCall(fr *Frame, st *State, name string, args []*Val) {
	w.callOrd["call:"+name]++
	ord := w.callOrd["call:"+name]
	x, less := args[0], args[1]
	props := []string{}
	if w.topContract != nil {
		props = w.topContract.Props
	}
	if x.Dyn == nil || x.Dyn.Typ == nil || less.Fn == nil || less.Fn.Fn == nil || less.Fn.Fn.Blocks == nil {
		o := w.oblige("call.pre", fmt.Sprintf("call.%s.%d.pre.orders-the-slice", name, ord), st.cond, tFalse, true, props)
		o.Result = &SolverResult{Status: "undecided", Output: "sort.Slice: the slice or the comparator is not statically known"}
		w.havocAll(st)
		return
	}
	sl := x.Dyn
	et := sl.Typ.Underlying().(*types.Slice).Elem()
	es := w.sortOf(et)
	key := w.elemsKeyT(et)
	n := slen(sl.T)
	var lastS2 *State
	evalLess := func(tag string) (Term, Term, Term, Term) {
		s2 := st.clone()
		lastS2 = s2
		contents := w.sc.fresh("sort.contents."+tag, arraySort(SInt, es))
		E := w.hget(s2, key)
		w.hset(s2, key, store(E, sarr(sl.T), contents))
		i, j := w.sc.fresh("sort.i."+tag, SInt), w.sc.fresh("sort.j."+tag, SInt)
		w.sc.assume(and(le(intLit(0), i), lt(i, n), le(intLit(0), j), lt(j, n)))
		// element well-formedness (non-nil allocated pointers stay what they were: arbitrary permutation of valid elements)
		if es == SInt {
			w.sc.assume(and(lt(intLit(0), sel(contents, add(soff(sl.T), i))), le(sel(contents, add(soff(sl.T), i)), w.hget(st, allocKey)),
				lt(intLit(0), sel(contents, add(soff(sl.T), j))), le(sel(contents, add(soff(sl.T), j)), w.hget(st, allocKey))))
		}
		w.muted++
		r := w.inlineCall(fr, s2, less.Fn.Fn, []*Val{{T: i, Typ: types.Typ[types.Int]}, {T: j, Typ: types.Typ[types.Int]}}, less.Fn.Bindings)
		w.muted--
		return r.T, sel(contents, add(soff(sl.T), i)), sel(contents, add(soff(sl.T), j)), i
	}
	r1, a1, b1, _ := evalLess("a")
	// the contract may state what the comparator orders by (sortkey): the
	// comparator is then checked to be "key(a) < key(b)" and the slice is
	// known to be in ascending key order afterwards
	var sk *SortKey
	if fr.top && fr.contract != nil {
		sk = fr.contract.SortKeys[ord]
	}
	if sk != nil {
		keyE, err := parseCExpr(sk.Text)
		if err != nil {
			unsupported("sortkey %d: %v", ord, err)
		}
		kenv := w.contractEnv(fr, lastS2, fr.entry)
		ka := w.eval(kenv.with(sk.Var, &Val{T: a1, Typ: et}), keyE)
		kb := w.eval(kenv.with(sk.Var, &Val{T: b1, Typ: et}), keyE)
		var lessT Term
		switch ka.T.Sort {
		case SString:
			lessT = mk(SBool, "str.<", ka.T, kb.T)
		case SInt:
			lessT = lt(ka.T, kb.T)
		default:
			unsupported("sortkey %d: keys of sort %s", ord, ka.T.Sort)
		}
		w.oblige("call.pre", fmt.Sprintf("call.%s.%d.orders-by-key", name, ord), st.cond, eq(r1, lessT), true, props)
	}
	r2, a2, b2, _ := evalLess("b")
	w.oblige("call.pre", fmt.Sprintf("call.%s.%d.pre.orders-the-slice", name, ord), st.cond,
		implies(and(eq(a1, a2), eq(b1, b2)), eq(r1, r2)), true, props)
	// asymmetry: evaluate less(j, i) on contents "a" is covered by the functional form: r(x,y) and r(y,x)
	r3, a3, b3, _ := evalLess("c")
	w.oblige("call.pre", fmt.Sprintf("call.%s.%d.pre.asymmetric", name, ord), st.cond,
		implies(and(eq(a1, b3), eq(b1, a3)), not(and(r1, r3))), true, props)
	// effect: the slice holds a permutation of its elements
	E := w.hget(st, key)
	perm := w.sc.fresh("sort.result", arraySort(SInt, es))
	old := sel(E, sarr(sl.T))
	fnm := sym(fmt.Sprintf("sortPerm!%d", len(w.pre)))
	w.preAdd("sortperm:"+fnm, fmt.Sprintf("(declare-fun %s (Int) Int)", fnm))
	w.sc.assume(implies(st.cond, Term{fmt.Sprintf("(forall ((sp! Int)) (! (=> (and (<= 0 sp!) (< sp! %s)) (and (<= 0 (%s sp!)) (< (%s sp!) %s) (= (select %s (+ %s sp!)) (select %s (+ %s (%s sp!)))))) :pattern ((%s sp!))))",
		n.S, fnm, fnm, n.S, perm.S, soff(sl.T).S, old.S, soff(sl.T).S, fnm, fnm), SBool}))
	w.hset(st, key, store(E, sarr(sl.T), perm))
	if sk != nil {
		w.sortSeq++
		sv := fmt.Sprintf("sorted__%d", w.sortSeq)
		re := regexp.MustCompile(`(^|[^\w.])` + regexp.QuoteMeta(sk.Var) + `($|[^\w(])`)
		at := func(ix string) string { return re.ReplaceAllString(sk.Text, "${1}"+sv+"["+ix+"]${2}") }
		text := fmt.Sprintf("forall si__ int, sj__ int :: 0 <= si__ && si__ < sj__ && sj__ < len(%s) ==> !((%s) < (%s))", sv, at("sj__"), at("si__"))
		fact, err := parseCExpr(text)
		if err != nil {
			unsupported("sortkey %d: %v", ord, err)
		}
		env := w.contractEnv(fr, st, fr.entry)
		env = env.with(sv, &Val{T: sl.T, Typ: sl.Typ})
		w.sc.assume(implies(st.cond, w.evalBool(env, fact)))
		w.noteQuantFacts(st.cond, env, fact)
		w.assumption("sort.Slice: under its preconditions (checked: the comparator is a strict order of the elements and equals 'key(a) < key(b)') the slice afterwards holds a permutation of its elements in ascending key order")
		return
	}
	w.assumption("sort.Slice: under its precondition (checked) the slice afterwards holds a permutation of its elements sorted by the comparator; sortedness is not used")
}

// verifyFunction generates the obligations of one function contract.
func verifyFunction(l *Loaded, specs *Specs, ct *Contract) (rep *FuncReport, w *World) {
	return verifyFunctionAliased(l, specs, ct, nil)
}

// verifyFunctionAliased verifies fn with the contract's local-variable names
// bound to the given locals of the body (contract name -> name in the code).
// verifyFunctionBounded generates the obligations of the bounded stand-in: every loop unrolled n times, no loop
// invariant used.
func verifyFunctionBounded(l *Loaded, specs *Specs, ct *Contract, localAlias map[string]string, n int) (rep *FuncReport, w *World) {
	rep, w = verifyFunctionOnce(l, specs, ct, localAlias, map[*Clause]bool{}, n)
	rep.Bounded = n
	if w != nil {
		rep.BoundedCuts = w.unrollCuts
	}
	return rep, w
}

func verifyFunctionAliased(l *Loaded, specs *Specs, ct *Contract, localAlias map[string]string) (rep *FuncReport, w *World) {
	skip := map[*Clause]bool{}
	var notes []string
	for round := 0; round < 12; round++ {
		var again *clauseSkip
		func() {
			defer func() {
				if r := recover(); r != nil {
					if cs, ok := r.(clauseSkip); ok {
						again = &cs
						return
					}
					panic(r)
				}
			}()
			rep, w = verifyFunctionOnce(l, specs, ct, localAlias, skip, 0)
		}()
		if again == nil {
			break
		}
		skip[again.cl] = true
		notes = append(notes, fmt.Sprintf("helper invariant '%s' of %s set aside: %s", again.cl.Label, ct.Name, again.msg))
	}
	if rep != nil {
		rep.SetAside = notes
		rep.Alias = localAlias
		rep.Assumptions = append(rep.Assumptions, notes...)
		if w != nil {
			for _, n := range notes {
				w.assumption(n)
			}
		}
	}
	return rep, w
}

func verifyFunctionOnce(l *Loaded, specs *Specs, ct *Contract, localAlias map[string]string, skip map[*Clause]bool, unroll int) (rep *FuncReport, w *World) {
	rep = &FuncReport{Pkg: ct.Pkg, Name: ct.Name, Contract: ct}
	w = newWorld(l, specs)
	w.curFn = shortPkg(ct.Pkg) + "." + ct.Name
	w.topContract = ct
	w.topFrame = nil
	w.skipClause = skip
	w.unrollN = unroll
	if unroll > 0 {
		w.deadline = time.Now().Add(40 * time.Second)
	}
	w.forgetMark = 0
	w.witnessTerms = nil
	w.rawFacts = nil
	defer func() {
		if r := recover(); r != nil {
			if u, ok := r.(unsupportedErr); ok {
				rep.Unsupported = u.msg
				rep.Obls = w.obls
				return
			}
			if _, ok := r.(clauseSkip); ok {
				panic(r)
			}
			if os.Getenv("GOAVC_PANIC") != "" {
				panic(r)
			}
			// a contract that no longer fits the code it is attached to (e.g. a name now bound to a value of another
			// type) can trip the generator itself: the function is undecided, never a crash of the check
			rep.Unsupported = fmt.Sprintf("the contract does not fit the function body any more (generator error: %v)", r)
			rep.Obls = w.obls
		}
	}()
	sp := l.SPkgs[ct.Pkg]
	if sp == nil {
		unsupported("package %s not loaded", ct.Pkg)
	}
	fn := allFunctions(l, sp)[ct.Name]
	if fn == nil {
		unsupported("contract target %s.%s does not exist", ct.Pkg, ct.Name)
	}
	w.assumeAxioms()
	fr := w.newFrame(fn, 0)
	fr.top = true
	fr.contract = ct
	st := &State{cond: tTrue, heap: map[string]Term{}, cells: map[cellID]Term{}}
	alloc0 := w.hget(st, allocKey)
	w.sc.assume(le(intLit(0), alloc0))
	// the contract's names for the parameters bind by position ("params"
	// clause), so renaming a parameter does not touch the contract
	if len(ct.Params) > 0 {
		if len(ct.Params) != len(fn.Params) {
			unsupported("contract of %s names %d parameters, the function has %d", ct.Name, len(ct.Params), len(fn.Params))
		}
		for i, p := range fn.Params {
			if ct.Params[i] != "_" && p.Name() != "_" {
				w.bindName(ct.Params[i], p.Name())
			}
		}
	}
	for k, v := range localAlias {
		w.bindName(k, v)
	}
	// parameters
	for pi, p := range fn.Params {
		pname := p.Name()
		if pname == "_" {
			pname = fmt.Sprintf("_%d", pi)
		}
		v := &Val{T: w.sc.declare("in."+pname, w.sortOf(p.Type())), Typ: p.Type()}
		fr.vals[p] = v
		fr.params[w.contractNameOf(p.Name())] = v
		w.assumeLoaded(st, v)
	}
	if len(ct.Captures) > 0 {
		if len(ct.Captures) != len(fn.FreeVars) {
			unsupported("contract of %s names %d captured variables, the closure captures %d", ct.Name, len(ct.Captures), len(fn.FreeVars))
		}
		// per type, by position (the order of the captured variables follows their first use in the closure)
		used := map[int]bool{}
		for _, cn := range ct.Captures {
			bound := false
			for i, fv := range fn.FreeVars {
				if used[i] || (ct.CaptureTypes[cn] != "" && ct.CaptureTypes[cn] != typeKey(deref(fv.Type()))) {
					continue
				}
				used[i] = true
				w.bindName(cn, fv.Name())
				bound = true
				break
			}
			if !bound {
				unsupported("contract of %s: no captured variable of type %s left for %s", ct.Name, ct.CaptureTypes[cn], cn)
			}
		}
	}
	for _, fv := range fn.FreeVars {
		ref := &Val{T: w.sc.declare("fv."+fv.Name(), SInt), Typ: fv.Type()}
		w.sc.assume(and(lt(intLit(0), ref.T), le(ref.T, alloc0)))
		fr.vals[fv] = ref
		cur := w.loadPtr(st, ref, fv.Type())
		fr.params[w.contractNameOf(fv.Name())] = cur
		fr.params["&"+w.contractNameOf(fv.Name())] = ref
	}
	// distinct captured cells
	for i := 0; i < len(fn.FreeVars); i++ {
		for j := i + 1; j < len(fn.FreeVars); j++ {
			if w.sortOf(deref(fn.FreeVars[i].Type())) == w.sortOf(deref(fn.FreeVars[j].Type())) {
				w.sc.assume(not(eq(fr.vals[fn.FreeVars[i]].T, fr.vals[fn.FreeVars[j]].T)))
			}
		}
	}
	if fn.Name() == "init" && fn.Pkg != nil {
		// the runtime runs a package initializer once: its guard is clear on entry
		if g, ok := fn.Pkg.Members["init$guard"].(*ssa.Global); ok {
			w.sc.assume(not(w.hget(st, w.globalKey(g))))
		}
	}
	fr.entry = st.clone()
	w.topEntry = fr.entry
	w.topFrame = fr
	entryEnv := w.contractEnv(fr, fr.entry, fr.entry)
	for _, rq := range ct.Requires {
		w.sc.assume(w.evalBool(entryEnv.assuming(), rq.Expr))
		w.noteQuantFacts(tTrue, entryEnv, rq.Expr)
	}
	for _, sp := range ct.Splits {
		w.splits = append(w.splits, w.sc.bind("split", w.evalBool(entryEnv, sp.Expr)))
	}
	exit, res := w.execBody(fr, st)
	rep.Havocked = w.havocked
	if exit == nil {
		o := w.oblige("vacuity", "reach.return", tTrue, tFalse, false, ct.Props)
		o.Expect = "sat"
		o.Goal = tTrue
		rep.Obls = w.obls
		return
	}
	env := w.contractEnv(fr, exit, fr.entry)
	env.fr = nil
	switch len(res) {
	case 0:
	case 1:
		env.vars["result"] = res[0]
		env.vars["result0"] = res[0]
	default:
		env.vars["result"] = &Val{Tuple: res}
		for i, r := range res {
			env.vars[fmt.Sprintf("result%d", i)] = r
		}
	}
	// named results
	if fn.Signature.Results() != nil {
		for i := 0; i < fn.Signature.Results().Len(); i++ {
			if n := fn.Signature.Results().At(i).Name(); n != "" && n != "_" && i < len(res) {
				if _, clash := env.vars[n]; !clash {
					env.vars[n] = res[i]
				}
			}
		}
	}
	w.replay = w.planReplay(fr, exit, res)
	for i, en := range ct.Ensures {
		if en.Assumed {
			w.assumption("clause '" + en.Label + "' of " + ct.Name + " is assumed, not proved (" + en.Src + ")")
			continue
		}
		lbl := en.Label
		if lbl == "" {
			lbl = fmt.Sprintf("post%d", i+1)
		}
		props := en.Props
		if len(props) == 0 {
			props = ct.Props
		}
		o := w.oblige("ensures", "ensures."+lbl, exit.cond, w.skolemGoal(env, en.Expr), en.Star, props)
		o.Pos = en.Line
		o.Clause = en
		if w.replay != nil {
			for _, k := range w.replay.order {
				o.ValNames = append(o.ValNames, k)
				o.Values = append(o.Values, w.replay.req[k])
			}
		}
	}
	if ct.ModStated && !ct.ModAll {
		w.frameObligations(fr, ct, exit, env)
	}
	if ct.ModAll && len(ct.Preserves) > 0 {
		// "modifies all" with a preserves list: the preserved keys are a frame obligation
		alloc0 := w.hget(fr.entry, allocKey)
		for _, pe := range ct.Preserves {
			for _, k := range w.preservedKeys(env, pe) {
				post, prev := w.hget(exit, k), w.hget(fr.entry, k)
				if post.S == prev.S {
					continue
				}
				idxSort, _, isArr := arrayParts(w.heapSort[k])
				goal := eq(post, prev)
				if isArr && idxSort == SInt {
					q := w.sc.fresh("frame.idx", SInt)
					goal = implies(and(le(q, alloc0), lt(intLit(0), q)), eq(sel(post, q), sel(prev, q)))
				}
				props := ct.FrameProps
				if len(props) == 0 {
					props = ct.Props
				}
				w.oblige("frame", "preserves."+k, exit.cond, goal, ct.FrameStar, props)
			}
		}
	}
	// a loop clause for a loop the body does not have (any more) is undecided, not passed
	if fr.loops != nil {
		var ks []int
		for k := range ct.Loops {
			ks = append(ks, k)
		}
		sort.Ints(ks)
		for _, k := range ks {
			if k >= 1 && k <= len(fr.loops.isHeader) {
				continue
			}
			star := false
			if ls := ct.Loops[k]; ls != nil {
				star = ls.Deterministic && ls.DetStar
				for _, c := range append(append([]*Clause{}, ls.Invariants...), ls.Steps...) {
					star = star || c.Star
				}
			}
			if w.unrollN > 0 && !star {
				continue
			}
			o := w.oblige("loop.init", fmt.Sprintf("loop%d.target", k), tTrue, tFalse, star, ct.Props)
			o.Result = &SolverResult{Status: "target-missing", Output: fmt.Sprintf("the contract has clauses for loop %d of %s, which has %d loop(s)", k, ct.Name, len(fr.loops.isHeader))}
		}
	}
	// an "at" assertion whose instruction no longer exists in the body is undecided, not passed
	for _, as := range ct.Asserts {
		if !w.firedAsserts[as] {
			if w.unrollN > 0 && !as.Clause.Star {
				continue
			}
			props := as.Clause.Props
			if len(props) == 0 {
				props = ct.Props
			}
			if as.Ord == 0 && as.Kind == "mapupdate" {
				// "every map update": none left is not a failure by itself
				continue
			}
			if as.Kind == "fieldstore" {
				o := w.oblige("assert", fmt.Sprintf("at.fieldstore.%s.%s", as.Field, as.Clause.Label), tTrue, tFalse, as.Clause.Star, props)
				o.Result = &SolverResult{Status: "target-missing", Output: fmt.Sprintf("the contract constrains the stores to %s made by %s, and the body no longer makes one", as.Field, ct.Name)}
				continue
			}
			o := w.oblige("assert", fmt.Sprintf("at.%s%d.%s", as.Kind, as.Ord, as.Clause.Label), tTrue, tFalse, as.Clause.Star, props)
			o.Result = &SolverResult{Status: "target-missing", Output: fmt.Sprintf("the contract attaches an assertion to %s #%d of %s, which is not in the function body (any more)", as.Kind, as.Ord, ct.Name)}
		}
	}
	if ct.Opts["maprange"] == "deterministic" {
		n := 0
		for _, o := range w.obls {
			if o.Kind == "loop.det" {
				n++
			}
		}
		if n == 0 {
			// no range over a map in the body: nothing can depend on the iteration order
			w.oblige("loop.det", "maprange.none", tTrue, tTrue, true, ct.Props)
			w.assumption("a function without a range over a map (and without calls that have one, other than trusted helpers) is independent of map iteration order")
		}
	}
	if ct.Opts["verify"] == "callsites" {
		// the contract itself is assumed; only the obligations at the calls made by the body are kept
		var kept []*Obligation
		for _, o := range w.obls {
			if (o.Kind == "call.pre" && o.Star) || o.Kind == "guard" || (o.Kind == "assert" && o.Star) {
				kept = append(kept, o)
			}
		}
		w.obls = kept
	}
	// reachability of a normal return (vacuity guard)
	o := w.oblige("vacuity", "reach.return", tTrue, tTrue, false, ct.Props)
	o.Expect = "sat"
	o.Goal = exit.cond
	rep.Obls = w.obls
	return
}

func shortPkg(p string) string {
	p = strings.TrimPrefix(p, modPath)
	p = strings.TrimPrefix(p, "/")
	if p == "" {
		return "goa"
	}
	return p
}

// frameObligations: everything the function wrote outside its modifies
// clause must be unchanged for objects that existed at entry.
func (w *World) frameObligations(fr *Frame, ct *Contract, exit *State, env *CEnv) {
	entry := fr.entry
	pre := &CEnv{w: w, pkg: env.pkg, vars: env.vars, cur: entry, old: entry, lets: ct.Lets}
	targets := w.modTargets(pre, ct)
	byKey := map[string][]modTarget{}
	for _, t := range targets {
		byKey[t.key] = append(byKey[t.key], t)
	}
	var keys []string
	if exit.epoch != entry.epoch {
		for k := range w.heapSort {
			keys = append(keys, k)
		}
	} else {
		for k := range exit.heap {
			keys = append(keys, k)
		}
	}
	sort.Strings(keys)
	alloc0 := w.hget(entry, allocKey)
	props := ct.FrameProps
	if len(props) == 0 {
		props = ct.Props
	}
	for _, k := range keys {
		if k == allocKey || strings.HasPrefix(k, "G!visited!") {
			continue
		}
		post := w.hget(exit, k)
		prev := w.hget(entry, k)
		if post.S == prev.S {
			continue
		}
		whole := false
		for _, t := range byKey[k] {
			if t.whole {
				whole = true
			}
		}
		if whole {
			continue
		}
		idxSort, _, isArr := arrayParts(w.heapSort[k])
		var goal Term
		if !isArr {
			goal = eq(post, prev)
		} else {
			q := w.sc.fresh("frame.idx", idxSort)
			var except []Term
			for _, t := range byKey[k] {
				if t.member != nil {
					except = append(except, t.member(q))
				} else {
					except = append(except, eq(q, t.idx))
				}
			}
			guard := not(or(except...))
			if idxSort == SInt && !strings.HasPrefix(k, "G!") {
				guard = and(le(q, alloc0), lt(intLit(0), q), guard)
			}
			goal = implies(guard, eq(sel(post, q), sel(prev, q)))
		}
		o := w.oblige("frame", "frame."+k, exit.cond, goal, ct.FrameStar, props)
		o.Pos = ct.File
	}
}

// ---------------------------------------------------------------------

func (o *Obligation) query(w *World) string {
	var b strings.Builder
	b.WriteString(w.prelude())
	b.WriteByte('\n')
	for _, f := range w.implFactLines() {
		b.WriteString(f)
		b.WriteByte('\n')
	}
	body := w.sc.prefix(o.Mark) + "\n" + strings.Join(o.Extra, "\n") + "\n" + o.Goal.S
	// definitions of the prelude used by the body count as part of it
	for changed, seen := true, map[int]bool{}; changed; {
		changed = false
		for i, ln := range w.pre {
			if seen[i] || !strings.HasPrefix(ln, "(define-fun") {
				continue
			}
			f := strings.Fields(ln)
			if len(f) > 1 && strings.Contains(body, "("+f[1]+" ") {
				seen[i] = true
				body += "\n" + ln
				changed = true
			}
		}
	}
	for i, ax := range w.axioms {
		for _, sy := range ax.syms {
			if strings.Contains(body, "("+sy+" ") {
				b.WriteString(ax.text)
				b.WriteByte('\n')
				w.assumption(w.axiomSrc[i])
				break
			}
		}
	}
	if pre := w.sc.prefix(o.Mark); (len(pre) > sliceThreshold() || (w.forgetMark > 0 && o.Mark > w.forgetMark)) && o.Expect != "sat" {
		// long function: keep only what is connected to the goal (sound: fewer hypotheses)
		forget := 0
		if o.Mark > w.forgetMark {
			forget = w.forgetMark
		}
		b.WriteString(strings.Join(sliceLines(w.sc.lines[:o.Mark], strings.Join(o.Extra, "\n")+"\n"+o.Goal.S, forget), "\n"))
		o.Sliced = true
	} else {
		b.WriteString(pre)
	}
	b.WriteByte('\n')
	for _, ln := range o.Extra {
		b.WriteString(ln)
		b.WriteByte('\n')
	}
	if o.Expect == "sat" {
		b.WriteString("(assert " + o.Goal.S + ")\n")
	} else {
		b.WriteString("(assert (not " + o.Goal.S + "))\n")
	}
	return b.String()
}

// implFactLines gives the ground facts "type T implements interface I" for
// the types and interfaces met while generating the VCs.
func (w *World) implFactLines() []string {
	var out []string
	var names []string
	for n := range w.implFacts {
		names = append(names, n)
	}
	sort.Strings(names)
	for _, n := range names {
		it := w.implFacts[n].Underlying().(*types.Interface)
		for i, t := range w.tagTypes {
			out = append(out, fmt.Sprintf("(assert (= (%s %d) %v))", n, i+1, types.Implements(t, it)))
		}
	}
	return out
}

// noRetry switches the lone retry off (the search for a binding of renamed locals proves the same function up to
// twelve times; retries there would multiply)
var noRetry bool

func solveAll(w *World, obls []*Obligation, timeoutS, seed int) {
	var wg sync.WaitGroup
	for _, o := range obls {
		if o.Result != nil {
			continue
		}
		wg.Add(1)
		go func(o *Obligation) {
			defer wg.Done()
			q := o.query(w)
			t := timeoutS
			if o.Expect == "sat" && t > 3 {
				t = 3
			}
			if (o.KnownFailing || o.Clause != nil && o.Clause.Withdrawn) && t > 5 {
				t = 5 // recorded finding: expected to fail
			}
			t0 := t
			if o.Expect == "unsat" && len(w.splits) > 0 && len(w.splits) <= 4 && t0 > 4 {
				t0 = 4 // a case split is available: do not wait long for the monolithic query
			}
			if o.Expect == "unsat" && (len(o.Parts) > 1 || len(o.Splits) > 0) && t0 > 8 {
				t0 = 8 // the goal can be proved piecewise: do not wait long for the whole
			}
			r := solve(o.Name, q, o.Values, t0, seed, "")
			if o.Expect == "unsat" && (r.Status == "unknown" || r.Status == "timeout") && len(w.splits) > 0 && len(w.splits) <= 4 {
				// exhaustive case split on the contract's split conditions
				all := true
				var ms int64
				for mask := 0; mask < 1<<len(w.splits) && all; mask++ {
					extra := ""
					for i, sp := range w.splits {
						if mask&(1<<i) != 0 {
							extra += "(assert " + sp.S + ")\n"
						} else {
							extra += "(assert (not " + sp.S + "))\n"
						}
					}
					rr := solve(fmt.Sprintf("%s.case%d", o.Name, mask), q+extra, o.Values, t, seed, "")
					ms += rr.Ms
					if rr.Status != "unsat" {
						all = false
						if rr.Status == "sat" {
							r = rr
						}
					}
				}
				if all {
					r = SolverResult{Status: "unsat", Solver: r.Solver + "+split", Ms: r.Ms + ms, All: r.All}
				}
			}
			if o.Expect == "unsat" && (r.Status == "unknown" || r.Status == "timeout") && (len(o.Parts) > 1 || len(o.Splits) > 0) {
				// the goal conjunct by conjunct, each under the case distinctions its quantifier guards suggest
				// (exhaustive: every conjunct, every truth assignment of the distinctions)
				parts := o.Parts
				if len(parts) == 0 {
					parts = []Term{o.Goal}
				}
				base := q[:strings.LastIndex(q, "(assert (not ")]
				all := true
				var ms int64
				for pi, part := range parts {
					if !all {
						break
					}
					pq := base + "(assert (not " + part.S + "))\n"
					rr := solve(fmt.Sprintf("%s.part%d", o.Name, pi), pq, o.Values, t/2+1, seed, "")
					ms += rr.Ms
					if rr.Status == "unsat" {
						continue
					}
					if len(o.Splits) == 0 || len(o.Splits) > 3 {
						all = false
						break
					}
					for mask := 0; mask < 1<<len(o.Splits) && all; mask++ {
						extra := ""
						for i, sp := range o.Splits {
							if mask&(1<<i) != 0 {
								extra += "(assert " + sp.S + ")\n"
							} else {
								extra += "(assert (not " + sp.S + "))\n"
							}
						}
						r2 := solve(fmt.Sprintf("%s.part%d.case%d", o.Name, pi, mask), pq+extra, o.Values, t/2+1, seed, "")
						ms += r2.Ms
						if r2.Status != "unsat" {
							all = false
						}
					}
				}
				if all {
					r = SolverResult{Status: "unsat", Solver: r.Solver + "+parts", Ms: r.Ms + ms, All: r.All}
				}
			}
			if o.Expect == "unsat" && r.Status != "unsat" && r.Status != "sat" {
				// candidate counterexample: drop the quantified assumptions
				// (sound only as a source of inputs to replay on the real code)
				var keep []string
				for _, ln := range strings.Split(q, "\n") {
					if !strings.Contains(ln, "(forall ") {
						keep = append(keep, ln)
					}
				}
				rr := solve(o.Name+".relaxed", strings.Join(keep, "\n"), o.Values, t, seed, "")
				if rr.Status == "sat" {
					r.Output += "\n--- candidate counterexample (quantified assumptions dropped) ---\n" + rr.Output
					o.Relaxed = &rr
				}
			}
			o.Result = &r
		}(o)
	}
	wg.Wait()
	// second opinion under less load: an obligation that only timed out while everything ran at once is tried
	// again alone (a loaded machine must not turn into an alarm); refutations and "unknown" stand
	retried := 0
	if noRetry {
		return
	}
	for _, o := range obls {
		if retried >= 4 {
			break
		}
		if o.Expect != "unsat" || o.Result == nil || o.KnownFailing || (o.Clause != nil && o.Clause.Withdrawn) {
			continue
		}
		timedOut := o.Result.Status == "timeout"
		if o.Result.Status == "unknown" {
			// one solver gave up while the others ran out of time: under load that is a timeout too
			for _, st := range o.Result.All {
				if st == "timeout" {
					timedOut = true
				}
			}
		}
		if !timedOut {
			continue
		}
		retried++
		rt := timeoutS // on the unchanged tree every obligation answers within 5 s: 15 s alone is ample
		if rt > 15 {
			rt = 15
		}
		for _, sd := range []int{seed + 1, seed + 2} {
			r := solve(o.Name+".retry", o.query(w), o.Values, rt, sd, "")
			if r.Status == "unsat" {
				r.Solver += "+retry"
				r.Ms += o.Result.Ms
				o.Result = &r
				o.Relaxed = nil
				break
			}
			if r.Status == "sat" {
				break
			}
		}
	}
}

func (o *Obligation) ok() bool {
	if o.Result == nil {
		return false
	}
	if o.Expect == "sat" {
		// vacuity guard: only a refutation ("the assumptions are
		// contradictory") fails it; quantified assumptions often make the
		// solvers answer unknown instead of sat
		return o.Result.Status == "sat" || o.Result.Status == "unknown" || o.Result.Status == "timeout"
	}
	return o.Result.Status == o.Expect
}

func cmdVerify(args []string) {
	if len(args) < 1 {
		fmt.Fprintln(os.Stderr, "usage: goavc verify ./pkg [func...]")
		os.Exit(2)
	}
	defer cleanupScratch()
	keep := os.Getenv("GOAVC_KEEP") != ""
	l, err := loadPackages(args[:1], nil)
	if err != nil {
		fmt.Fprintln(os.Stderr, err)
		os.Exit(1)
	}
	specs, err := loadAllSpecs(l, modelsDir())
	if err != nil {
		fmt.Fprintln(os.Stderr, err)
		os.Exit(1)
	}
	pkgPath := l.Pkgs[0].PkgPath
	want := map[string]bool{}
	for _, a := range args[1:] {
		want[a] = true
	}
	var keys []string
	for k, ct := range specs.Contracts {
		if ct.Kind == "func" && (!ct.Trusted || ct.Opts["verify"] == "callsites") && ct.Pkg == pkgPath && (len(want) == 0 || want[ct.Name]) {
			keys = append(keys, k)
		}
	}
	sort.Strings(keys)
	bad := 0
	for _, k := range keys {
		ct := specs.Contracts[k]
		start := time.Now()
		rep, w := verifyFunction(l, specs, ct)
		solveAll(w, rep.Obls, 20, 1)
		fmt.Printf("== %s.%s  (%d obligations, %d ms)\n", ct.Pkg, ct.Name, len(rep.Obls), time.Since(start).Milliseconds())
		if rep.Unsupported != "" {
			fmt.Printf("   OUTSIDE SUBSET: %s\n", rep.Unsupported)
		}
		for _, n := range rep.SetAside {
			fmt.Printf("   SET ASIDE: %s\n", n)
			bad++
		}
		for _, h := range rep.Havocked {
			fmt.Printf("   havoc: %s\n", h)
		}
		for _, o := range rep.Obls {
			mark := "ok  "
			if !o.ok() {
				mark = "FAIL"
				bad++
			}
			star := " "
			if o.Star {
				star = "*"
			}
			fmt.Printf("   %s %s %-50s %-7s %-6s %4dms %v %s\n", mark, star, o.Label, o.Result.Status, o.Result.Solver, o.Result.Ms, o.Result.All, o.Src)
			if (!o.ok() && keep) || os.Getenv("GOAVC_KEEP") == "all" {
				f := filepath.Join(os.TempDir(), "goavc-fail-"+strings.NewReplacer("/", "_", "*", "_", "(", "_", ")", "_", "$", "_", "#", "_").Replace(o.Name)+".smt2")
				os.WriteFile(f, []byte(o.query(w)+"(check-sat)\n(get-model)\n"), 0o644)
				fmt.Printf("        query kept: %s\n", f)
			}
		}
	}
	// lemmas of the package
	for _, lm := range specs.Lemmas {
		if lm.Pkg != pkgPath || (len(want) > 0 && !want[lm.Name]) {
			continue
		}
		w, o := verifyLemma(l, specs, lm)
		solveAll(w, []*Obligation{o}, 20, 1)
		mark := "ok  "
		if !o.ok() {
			mark = "FAIL"
			bad++
		}
		fmt.Printf("== lemma %s: %s %s %s %dms\n", lm.Name, mark, o.Result.Status, o.Result.Solver, o.Result.Ms)
		if !o.ok() && keep {
			f := filepath.Join(os.TempDir(), "goavc-fail-lemma-"+lm.Name+".smt2")
			os.WriteFile(f, []byte(o.query(w)+"(check-sat)\n(get-model)\n"), 0o644)
			fmt.Printf("        query kept: %s\n", f)
		}
	}
	if bad > 0 {
		os.Exit(1)
	}
}

func verifyLemma(l *Loaded, specs *Specs, lm *Lemma) (*World, *Obligation) {
	w := newWorld(l, specs)
	w.curFn = "lemma." + lm.Name
	var pkg *types.Package
	if p := l.All[lm.Pkg]; p != nil {
		pkg = p.Types
	}
	w.assumeAxioms()
	st := &State{cond: tTrue, heap: map[string]Term{}, cells: map[cellID]Term{}}
	env := &CEnv{w: w, pkg: pkg, vars: map[string]*Val{}, cur: st, old: st}
	var o *Obligation
	func() {
		defer func() {
			if r := recover(); r != nil {
				if u, ok := r.(unsupportedErr); ok {
					o = &Obligation{Name: w.curFn + "#lemma", Func: w.curFn, Label: "lemma", Kind: "lemma", Star: true, Props: lm.Props, Goal: tFalse, Expect: "unsat"}
					o.Result = &SolverResult{Status: "error", Output: u.msg}
					return
				}
				panic(r)
			}
		}()
		// a universally quantified lemma is proved for fresh constants, so
		// that a refutation comes with the values of the quantified variables
		expr := lm.Expr
		var names, terms []string
		if expr.Op == "forall" {
			for _, b := range expr.Binders {
				var srt Sort
				var typ types.Type
				if b.Type.Raw != "" {
					srt = Sort(b.Type.Raw)
				} else if b.Type.Pkg == "" && b.Type.Ptr == 0 && !b.Type.Slice && w.isSortName(b.Type.Name) {
					srt = Sort(b.Type.Name)
				} else {
					typ = w.resolveType(env, b.Type)
					srt = w.sortOf(typ)
				}
				c := w.sc.declare("lemma."+b.Name, srt)
				env = env.with(b.Name, &Val{T: c, Typ: typ})
				names = append(names, b.Name)
				terms = append(terms, c.S)
			}
			expr = expr.Args[0]
		}
		g := w.evalBool(env, expr)
		o = w.oblige("lemma", "lemma", tTrue, g, true, lm.Props)
		o.ValNames, o.Values = names, terms
	}()
	o.Pos = lm.File
	return w, o
}

func modelsDir() string {
	if d := os.Getenv("GOAVC_MODELS"); d != "" {
		return d
	}
	exe, err := os.Executable()
	if err == nil {
		d := filepath.Join(filepath.Dir(filepath.Dir(exe)), "models")
		if _, err := os.Stat(d); err == nil {
			return d
		}
	}
	return "/verif/models"
}
