package main

import (
	"fmt"
	"strconv"
	"strings"
)

// CExpr is the AST of a contract expression.
//
//	Op: "lit.int" "lit.str" "lit.bool" "nil" "id" "sel" "call" "index" "slice"
//	    "tassert" "un" "bin" "forall" "exists" "type"
type CExpr struct {
	Op      string
	Name    string // identifier, selector field, operator
	Int     int64
	Str     string
	Bool    bool
	Args    []*CExpr
	Binders []Binder
	Type    *CType
}

type Binder struct {
	Name string
	Type *CType
}

// CType is a (very small) type expression: optional '*' / '[]' prefixes on a
// possibly qualified name.
type CType struct {
	PtrOuter int // pointers applied to the slice type (*[]T)
	Ptr      int
	Slice    bool
	Pkg      string
	Name     string
	Raw      string // a raw SMT sort, e.g. (Array Int Iface)
}

func (t *CType) String() string {
	if t.PtrOuter > 0 {
		u := *t
		u.PtrOuter = 0
		return strings.Repeat("*", t.PtrOuter) + u.String()
	}
	s := strings.Repeat("*", t.Ptr)
	if t.Slice {
		s = "[]" + s
	}
	if t.Pkg != "" {
		s += t.Pkg + "."
	}
	return s + t.Name
}

type ctok struct {
	kind string // id int str op eof
	text string
	pos  int
}

func clex(src string) ([]ctok, error) {
	var toks []ctok
	i := 0
	for i < len(src) {
		c := src[i]
		switch {
		case c == ' ' || c == '\t':
			i++
		case c == '"':
			j := i + 1
			for j < len(src) && src[j] != '"' {
				if src[j] == '\\' {
					j++
				}
				j++
			}
			if j >= len(src) {
				return nil, fmt.Errorf("unterminated string at %d", i)
			}
			s, err := strconv.Unquote(src[i : j+1])
			if err != nil {
				return nil, fmt.Errorf("bad string literal %s", src[i:j+1])
			}
			toks = append(toks, ctok{"str", s, i})
			i = j + 1
		case c >= '0' && c <= '9':
			j := i
			for j < len(src) && (src[j] >= '0' && src[j] <= '9') {
				j++
			}
			toks = append(toks, ctok{"int", src[i:j], i})
			i = j
		case c == '_' || c >= 'a' && c <= 'z' || c >= 'A' && c <= 'Z' || c == '$':
			j := i
			for j < len(src) && (src[j] == '_' || src[j] == '$' || src[j] == '#' || src[j] >= 'a' && src[j] <= 'z' || src[j] >= 'A' && src[j] <= 'Z' || src[j] >= '0' && src[j] <= '9') {
				j++
			}
			toks = append(toks, ctok{"id", src[i:j], i})
			i = j
		default:
			ops := []string{"<==>", "==>", "::", "&&", "||", "==", "!=", "<=", ">=", "[]", "(", ")", "[", "]", ",", ".", ":", "!", "<", ">", "+", "-", "*", "/", "%", "?"}
			matched := false
			for _, op := range ops {
				if strings.HasPrefix(src[i:], op) {
					if op == "[]" {
						// only a type prefix when followed by an identifier or '*'
						if i+2 < len(src) && (src[i+2] == '*' || src[i+2] == '_' || src[i+2] >= 'a' && src[i+2] <= 'z' || src[i+2] >= 'A' && src[i+2] <= 'Z') {
							toks = append(toks, ctok{"op", op, i})
							i += 2
							matched = true
							break
						}
						continue
					}
					toks = append(toks, ctok{"op", op, i})
					i += len(op)
					matched = true
					break
				}
			}
			if !matched {
				return nil, fmt.Errorf("unexpected character %q at %d in %q", c, i, src)
			}
		}
	}
	toks = append(toks, ctok{"eof", "", len(src)})
	return toks, nil
}

type cparser struct {
	toks []ctok
	i    int
	src  string
}

func parseCExpr(src string) (*CExpr, error) {
	toks, err := clex(strings.TrimSpace(src))
	if err != nil {
		return nil, err
	}
	p := &cparser{toks: toks, src: src}
	var e *CExpr
	func() {
		defer func() {
			if r := recover(); r != nil {
				if pe, ok := r.(cparseErr); ok {
					err = fmt.Errorf("%s in %q", pe.msg, src)
					return
				}
				panic(r)
			}
		}()
		e = p.expr()
		if p.peek().kind != "eof" {
			p.fail("unexpected %q", p.peek().text)
		}
	}()
	return e, err
}

type cparseErr struct{ msg string }

func (p *cparser) fail(format string, args ...any) {
	panic(cparseErr{fmt.Sprintf(format, args...) + fmt.Sprintf(" at offset %d", p.peek().pos)})
}

func (p *cparser) peek() ctok { return p.toks[p.i] }
func (p *cparser) next() ctok { t := p.toks[p.i]; p.i++; return t }
func (p *cparser) isOp(op string) bool {
	t := p.peek()
	return t.kind == "op" && t.text == op
}
func (p *cparser) accept(op string) bool {
	if p.isOp(op) {
		p.i++
		return true
	}
	return false
}
func (p *cparser) expect(op string) {
	if !p.accept(op) {
		p.fail("expected %q, found %q", op, p.peek().text)
	}
}

// expr := quantifier | iff
func (p *cparser) expr() *CExpr {
	if t := p.peek(); t.kind == "id" && (t.text == "forall" || t.text == "exists") {
		p.next()
		e := &CExpr{Op: t.text}
		for {
			// names (comma separated) followed by a type
			var names []string
			for {
				n := p.next()
				if n.kind != "id" {
					p.fail("binder name expected")
				}
				names = append(names, n.text)
				if p.isOp(",") {
					// "i, j int" or "i int, j int": look ahead — after the
					// comma comes either a name followed by a type or a name
					// followed by ','/type. We treat comma-separated names
					// before the first type as sharing it.
					p.next()
					continue
				}
				break
			}
			ty := p.typ()
			for _, n := range names {
				e.Binders = append(e.Binders, Binder{n, ty})
			}
			if p.accept(",") {
				continue
			}
			break
		}
		p.expect("::")
		e.Args = []*CExpr{p.expr()}
		return e
	}
	return p.iff()
}

func (p *cparser) typ() *CType {
	t := &CType{}
	if p.isOp("(") {
		depth := 0
		var parts []string
		for {
			tk := p.next()
			if tk.kind == "eof" {
				p.fail("unterminated sort")
			}
			switch tk.text {
			case "(":
				depth++
				parts = append(parts, "(")
			case ")":
				depth--
				parts = append(parts, ")")
			default:
				parts = append(parts, tk.text)
			}
			if depth == 0 {
				break
			}
		}
		raw := strings.Join(parts, " ")
		raw = strings.ReplaceAll(raw, "( ", "(")
		raw = strings.ReplaceAll(raw, " )", ")")
		t.Raw = raw
		t.Name = raw
		return t
	}
	if p.accept("[]") {
		t.Slice = true
	}
	for p.accept("*") {
		t.Ptr++
	}
	if !t.Slice && p.accept("[]") {
		// *[]T: pointers to a slice
		t.Slice = true
		t.PtrOuter = t.Ptr
		t.Ptr = 0
		for p.accept("*") {
			t.Ptr++
		}
	}
	n := p.next()
	if n.kind != "id" {
		p.fail("type name expected, found %q", n.text)
	}
	t.Name = n.text
	if p.isOp(".") {
		p.next()
		m := p.next()
		if m.kind != "id" {
			p.fail("type name expected after '.'")
		}
		t.Pkg, t.Name = t.Name, m.text
	}
	return t
}

func (p *cparser) iff() *CExpr {
	l := p.imp()
	for p.accept("<==>") {
		r := p.imp()
		l = &CExpr{Op: "bin", Name: "<==>", Args: []*CExpr{l, r}}
	}
	return l
}

func (p *cparser) imp() *CExpr {
	l := p.orE()
	if p.accept("==>") {
		var r *CExpr
		if t := p.peek(); t.kind == "id" && (t.text == "forall" || t.text == "exists") {
			r = p.expr()
		} else {
			r = p.imp()
		}
		return &CExpr{Op: "bin", Name: "==>", Args: []*CExpr{l, r}}
	}
	return l
}

func (p *cparser) orE() *CExpr {
	l := p.andE()
	for p.accept("||") {
		r := p.andE()
		l = &CExpr{Op: "bin", Name: "||", Args: []*CExpr{l, r}}
	}
	return l
}

func (p *cparser) andE() *CExpr {
	l := p.cmp()
	for p.accept("&&") {
		r := p.cmp()
		l = &CExpr{Op: "bin", Name: "&&", Args: []*CExpr{l, r}}
	}
	return l
}

func (p *cparser) cmp() *CExpr {
	l := p.addE()
	for {
		t := p.peek()
		if t.kind == "op" && (t.text == "==" || t.text == "!=" || t.text == "<" || t.text == "<=" || t.text == ">" || t.text == ">=") {
			p.next()
			r := p.addE()
			l = &CExpr{Op: "bin", Name: t.text, Args: []*CExpr{l, r}}
			continue
		}
		return l
	}
}

func (p *cparser) addE() *CExpr {
	l := p.mulE()
	for {
		t := p.peek()
		if t.kind == "op" && (t.text == "+" || t.text == "-") {
			p.next()
			r := p.mulE()
			l = &CExpr{Op: "bin", Name: t.text, Args: []*CExpr{l, r}}
			continue
		}
		return l
	}
}

func (p *cparser) mulE() *CExpr {
	l := p.unary()
	for {
		t := p.peek()
		if t.kind == "op" && (t.text == "*" || t.text == "/" || t.text == "%") {
			p.next()
			r := p.unary()
			l = &CExpr{Op: "bin", Name: t.text, Args: []*CExpr{l, r}}
			continue
		}
		return l
	}
}

func (p *cparser) unary() *CExpr {
	if p.accept("!") {
		return &CExpr{Op: "un", Name: "!", Args: []*CExpr{p.unary()}}
	}
	if p.accept("-") {
		return &CExpr{Op: "un", Name: "-", Args: []*CExpr{p.unary()}}
	}
	return p.postfix()
}

func (p *cparser) postfix() *CExpr {
	e := p.primary()
	for {
		switch {
		case p.isOp("."):
			p.next()
			if p.accept("(") {
				ty := p.typ()
				p.expect(")")
				e = &CExpr{Op: "tassert", Args: []*CExpr{e}, Type: ty}
				continue
			}
			n := p.next()
			if n.kind != "id" && n.kind != "int" {
				p.fail("field name expected")
			}
			e = &CExpr{Op: "sel", Name: n.text, Args: []*CExpr{e}}
		case p.isOp("("):
			p.next()
			call := &CExpr{Op: "call", Args: []*CExpr{e}}
			for !p.isOp(")") {
				// a type argument (typeIs(x, *T))
				if p.isOp("*") || p.isOp("[]") {
					ty := p.typ()
					call.Args = append(call.Args, &CExpr{Op: "type", Type: ty})
				} else {
					call.Args = append(call.Args, p.expr())
				}
				if !p.accept(",") {
					break
				}
			}
			p.expect(")")
			e = call
		case p.isOp("["):
			p.next()
			if p.accept(":") {
				hi := p.expr()
				p.expect("]")
				e = &CExpr{Op: "slice", Args: []*CExpr{e, nil, hi}}
				continue
			}
			idx := p.expr()
			if p.accept(":") {
				var hi *CExpr
				if !p.isOp("]") {
					hi = p.expr()
				}
				p.expect("]")
				e = &CExpr{Op: "slice", Args: []*CExpr{e, idx, hi}}
				continue
			}
			p.expect("]")
			e = &CExpr{Op: "index", Args: []*CExpr{e, idx}}
		default:
			return e
		}
	}
}

func (p *cparser) primary() *CExpr {
	t := p.next()
	switch t.kind {
	case "int":
		n, _ := strconv.ParseInt(t.text, 10, 64)
		return &CExpr{Op: "lit.int", Int: n}
	case "str":
		return &CExpr{Op: "lit.str", Str: t.text}
	case "id":
		switch t.text {
		case "true":
			return &CExpr{Op: "lit.bool", Bool: true}
		case "false":
			return &CExpr{Op: "lit.bool", Bool: false}
		case "nil":
			return &CExpr{Op: "nil"}
		}
		return &CExpr{Op: "id", Name: t.text}
	case "op":
		if t.text == "(" {
			e := p.expr()
			p.expect(")")
			return e
		}
	}
	p.i--
	p.fail("unexpected %q", t.text)
	return nil
}
