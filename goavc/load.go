package main

import (
	"fmt"
	"os"
	"sort"
	"strings"

	"golang.org/x/tools/go/packages"
	"golang.org/x/tools/go/ssa"
	"golang.org/x/tools/go/ssa/ssautil"
)

const repoDir = "/repo"
const modPath = "goa.design/goa/v3"

// Loaded is the result of loading packages of /repo and building their SSA.
type Loaded struct {
	Pkgs  []*packages.Package
	Prog  *ssa.Program
	SPkgs map[string]*ssa.Package // by import path
	All   map[string]*packages.Package
}

func repoRoot() string {
	if d := os.Getenv("GOAVC_REPO"); d != "" {
		return d
	}
	return repoDir
}

// loadPackages loads the given package patterns (relative to the repo root,
// e.g. "./http") with the verif build tag on and builds naive-form SSA.
func loadPackages(patterns []string, overlay map[string][]byte) (*Loaded, error) {
	cfg := &packages.Config{
		Mode: packages.NeedName | packages.NeedFiles | packages.NeedCompiledGoFiles |
			packages.NeedImports | packages.NeedDeps | packages.NeedTypes |
			packages.NeedSyntax | packages.NeedTypesInfo | packages.NeedTypesSizes | packages.NeedModule,
		Dir:        repoRoot(),
		BuildFlags: []string{"-tags=verif", "-mod=mod"},
		Env: append(os.Environ(), "GOFLAGS=-mod=mod", "GOPROXY=off", "GOSUMDB=off",
			"GOTOOLCHAIN=local", "GOWORK=off"),
		Overlay: overlay,
	}
	pkgs, err := packages.Load(cfg, patterns...)
	if err != nil {
		return nil, err
	}
	var errs []string
	packages.Visit(pkgs, nil, func(p *packages.Package) {
		if strings.HasPrefix(p.PkgPath, modPath) {
			for _, e := range p.Errors {
				errs = append(errs, e.Error())
			}
		}
	})
	if len(errs) > 0 {
		return nil, fmt.Errorf("package errors:\n%s", strings.Join(errs, "\n"))
	}
	prog, _ := ssautil.AllPackages(pkgs, ssa.NaiveForm|ssa.GlobalDebug|ssa.InstantiateGenerics)
	l := &Loaded{Pkgs: pkgs, Prog: prog, SPkgs: map[string]*ssa.Package{}, All: map[string]*packages.Package{}}
	packages.Visit(pkgs, nil, func(p *packages.Package) {
		l.All[p.PkgPath] = p
	})
	// Build only packages of the module under verification plus those we
	// need bodies from (none: dependencies are contracts).
	for _, sp := range prog.AllPackages() {
		l.SPkgs[sp.Pkg.Path()] = sp
		if strings.HasPrefix(sp.Pkg.Path(), modPath) {
			sp.Build()
		}
	}
	return l, nil
}

// funcName is the contract-level name of an SSA function relative to its
// package: "StatusCode" for methods is "(*ErrorResponse).StatusCode",
// closures "ErrorEncoder$1".
func funcName(f *ssa.Function) string {
	if f.Parent() != nil {
		return funcName(f.Parent()) + strings.TrimPrefix(f.Name(), f.Parent().Name())
	}
	if recv := f.Signature.Recv(); recv != nil {
		t := recv.Type().String()
		if f.Pkg != nil {
			t = strings.ReplaceAll(t, f.Pkg.Pkg.Path()+".", "")
		}
		if strings.HasPrefix(t, "*") {
			return "(" + t + ")." + f.Name()
		}
		return t + "." + f.Name()
	}
	return f.Name()
}

// allFunctions lists every function (incl. methods and closures) of an SSA
// package by contract-level name.
func allFunctions(l *Loaded, sp *ssa.Package) map[string]*ssa.Function {
	out := map[string]*ssa.Function{}
	var add func(f *ssa.Function)
	add = func(f *ssa.Function) {
		if f == nil || f.Blocks == nil && f.Synthetic != "" {
			return
		}
		out[funcName(f)] = f
		for _, a := range f.AnonFuncs {
			add(a)
		}
	}
	for _, m := range sp.Members {
		switch m := m.(type) {
		case *ssa.Function:
			add(m)
		case *ssa.Type:
			for _, t := range []interface {
			}{m.Type()} {
				_ = t
			}
			mset := l.Prog.MethodSets.MethodSet(m.Type())
			for i := 0; i < mset.Len(); i++ {
				if f := l.Prog.MethodValue(mset.At(i)); f != nil && f.Pkg == sp && f.Synthetic == "" {
					add(f)
				}
			}
			pm := l.Prog.MethodSets.MethodSet(typesPointer(m.Type()))
			for i := 0; i < pm.Len(); i++ {
				if f := l.Prog.MethodValue(pm.At(i)); f != nil && f.Pkg == sp && f.Synthetic == "" {
					add(f)
				}
			}
		}
	}
	return out
}

func cmdDump(args []string) {
	if len(args) < 1 {
		fmt.Fprintln(os.Stderr, "usage: goavc dump ./pkg [func...]")
		os.Exit(2)
	}
	l, err := loadPackages(args[:1], nil)
	if err != nil {
		fmt.Fprintln(os.Stderr, err)
		os.Exit(1)
	}
	sp := l.SPkgs[l.Pkgs[0].PkgPath]
	fns := allFunctions(l, sp)
	if len(args) == 1 {
		var names []string
		for n := range fns {
			names = append(names, n)
		}
		sort.Strings(names)
		for _, n := range names {
			fmt.Println(n)
		}
		return
	}
	for _, n := range args[1:] {
		f := fns[n]
		if f == nil {
			fmt.Println("no such function", n)
			continue
		}
		f.WriteTo(os.Stdout)
	}
}
