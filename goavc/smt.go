package main

import (
	"bytes"
	"context"
	"fmt"
	"os"
	"os/exec"
	"path/filepath"
	"strconv"
	"strings"
	"sync"
	"time"
)

// Sort is the text of an SMT-LIB sort.
type Sort string

const (
	SInt    Sort = "Int"
	SBool   Sort = "Bool"
	SString Sort = "String"
	SReal   Sort = "Real"
	SIface  Sort = "Iface"
	SSlice  Sort = "Slice"
)

func arraySort(idx, elem Sort) Sort { return Sort("(Array " + string(idx) + " " + string(elem) + ")") }

// arrayParts splits an array sort into index and element sorts.
func arrayParts(s Sort) (Sort, Sort, bool) {
	str := string(s)
	if !strings.HasPrefix(str, "(Array ") {
		return "", "", false
	}
	body := str[len("(Array ") : len(str)-1]
	// first sort is either an atom or a parenthesised expression
	depth := 0
	for i, c := range body {
		switch c {
		case '(':
			depth++
		case ')':
			depth--
		case ' ':
			if depth == 0 {
				return Sort(body[:i]), Sort(body[i+1:]), true
			}
		}
	}
	return "", "", false
}

// Term is an SMT-LIB term together with its sort.
type Term struct {
	S    string
	Sort Sort
}

func (t Term) String() string { return t.S }

func mk(sort Sort, op string, args ...Term) Term {
	var b strings.Builder
	b.WriteByte('(')
	b.WriteString(op)
	for _, a := range args {
		b.WriteByte(' ')
		b.WriteString(a.S)
	}
	b.WriteByte(')')
	return Term{b.String(), sort}
}

var (
	tTrue  = Term{"true", SBool}
	tFalse = Term{"false", SBool}
)

func intLit(n int64) Term {
	if n < 0 {
		return Term{"(- " + strconv.FormatInt(-n, 10) + ")", SInt}
	}
	return Term{strconv.FormatInt(n, 10), SInt}
}

func boolLit(b bool) Term {
	if b {
		return tTrue
	}
	return tFalse
}

// strLit renders a Go string as an SMT-LIB string literal (bytes > 126 and
// control characters are escaped with \u{..}).
func strLit(s string) Term {
	var b strings.Builder
	b.WriteByte('"')
	for i := 0; i < len(s); i++ {
		c := s[i]
		switch {
		case c == '"':
			b.WriteString(`""`)
		case c == '\\':
			b.WriteString(`\u{5c}`)
		case c < 32 || c > 126:
			fmt.Fprintf(&b, `\u{%x}`, c)
		default:
			b.WriteByte(c)
		}
	}
	b.WriteByte('"')
	return Term{b.String(), SString}
}

func and(ts ...Term) Term {
	var xs []Term
	for _, t := range ts {
		if t.S == "true" {
			continue
		}
		if t.S == "false" {
			return tFalse
		}
		xs = append(xs, t)
	}
	switch len(xs) {
	case 0:
		return tTrue
	case 1:
		return xs[0]
	}
	return mk(SBool, "and", xs...)
}

func or(ts ...Term) Term {
	var xs []Term
	for _, t := range ts {
		if t.S == "false" {
			continue
		}
		if t.S == "true" {
			return tTrue
		}
		xs = append(xs, t)
	}
	switch len(xs) {
	case 0:
		return tFalse
	case 1:
		return xs[0]
	}
	return mk(SBool, "or", xs...)
}

func not(t Term) Term {
	switch t.S {
	case "true":
		return tFalse
	case "false":
		return tTrue
	}
	return mk(SBool, "not", t)
}

func implies(a, b Term) Term {
	if a.S == "true" {
		return b
	}
	if a.S == "false" || b.S == "true" {
		return tTrue
	}
	return mk(SBool, "=>", a, b)
}

func eq(a, b Term) Term {
	if a.S == b.S {
		return tTrue
	}
	return mk(SBool, "=", a, b)
}

func ite(c, a, b Term) Term {
	if c.S == "true" {
		return a
	}
	if c.S == "false" {
		return b
	}
	if a.S == b.S {
		return a
	}
	return mk(a.Sort, "ite", c, a, b)
}

func sel(arr, idx Term) Term {
	_, e, ok := arrayParts(arr.Sort)
	if !ok {
		panic("select on non-array " + string(arr.Sort) + " " + arr.S)
	}
	return mk(e, "select", arr, idx)
}

func store(arr, idx, v Term) Term { return mk(arr.Sort, "store", arr, idx, v) }

func sym(name string) string {
	for _, c := range name {
		if !(c >= 'a' && c <= 'z' || c >= 'A' && c <= 'Z' || c >= '0' && c <= '9' || c == '_' || c == '.' || c == '!' || c == '$' || c == '@' || c == '-' || c == '^' || c == '~' || c == '%' || c == '&' || c == '*' || c == '+' || c == '/' || c == '<' || c == '=' || c == '>' || c == '?') {
			return "|" + strings.NewReplacer("|", "!", "\\", "!").Replace(name) + "|"
		}
	}
	if name == "" || (name[0] >= '0' && name[0] <= '9') {
		return "|" + name + "|"
	}
	return name
}

// Script is an append-only SMT-LIB script: declarations, definitions and
// assumptions in execution order. An obligation is discharged against the
// prefix of the script that precedes it.
type Script struct {
	lines    []string
	declared map[string]Sort
	n        int
}

func newScript() *Script { return &Script{declared: map[string]Sort{}} }

func (s *Script) mark() int { return len(s.lines) }

func (s *Script) raw(line string) { s.lines = append(s.lines, line) }

// declare introduces an unconstrained constant.
func (s *Script) declare(name string, sort Sort) Term {
	q := sym(name)
	if old, ok := s.declared[q]; ok {
		if old != sort {
			panic(fmt.Sprintf("redeclaration of %s: %s vs %s", q, old, sort))
		}
		return Term{q, sort}
	}
	s.declared[q] = sort
	s.lines = append(s.lines, fmt.Sprintf("(declare-fun %s () %s)", q, sort))
	return Term{q, sort}
}

// fresh introduces a new unconstrained constant with a unique name.
func (s *Script) fresh(hint string, sort Sort) Term {
	s.n++
	return s.declare(fmt.Sprintf("%s!%d", hint, s.n), sort)
}

// define names a term (a 0-ary define-fun) so that later uses stay small.
func (s *Script) define(hint string, t Term) Term {
	if !strings.Contains(t.S, " ") || len(t.S) < 24 && !strings.Contains(t.S, "(") {
		return t
	}
	s.n++
	q := sym(fmt.Sprintf("%s!%d", hint, s.n))
	s.declared[q] = t.Sort
	s.lines = append(s.lines, fmt.Sprintf("(define-fun %s () %s %s)", q, t.Sort, t.S))
	return Term{q, t.Sort}
}

// bind introduces a constant equal to t (unlike define, the name is a real
// symbol and can appear in quantifier patterns).
func (s *Script) bind(hint string, t Term) Term {
	c := s.fresh(hint, t.Sort)
	s.lines = append(s.lines, fmt.Sprintf("(assert (= %s %s))", c.S, t.S))
	return c
}

func (s *Script) assume(t Term) {
	if t.S == "true" {
		return
	}
	s.lines = append(s.lines, "(assert "+t.S+")")
}

func (s *Script) comment(c string) {
	s.lines = append(s.lines, "; "+strings.ReplaceAll(c, "\n", " "))
}

// cut removes the lines added since mark m and returns them (used for facts
// that are local to one obligation). Symbols declared in the removed lines
// are forgotten so that they are declared again if needed later.
func (s *Script) cut(m int) []string {
	out := append([]string{}, s.lines[m:]...)
	s.lines = s.lines[:m]
	for _, ln := range out {
		if strings.HasPrefix(ln, "(declare-fun ") || strings.HasPrefix(ln, "(define-fun ") {
			f := strings.Fields(ln)
			if len(f) > 1 {
				delete(s.declared, f[1])
			}
		}
	}
	return out
}

func (s *Script) prefix(upto int) string {
	return strings.Join(s.lines[:upto], "\n")
}

// ---------------------------------------------------------------------
// Solvers

type SolverResult struct {
	Status string // unsat | sat | unknown | timeout | error
	Solver string
	Ms     int64
	Output string // full output of the deciding solver (model values on sat)
	All    map[string]string
}

type solverSpec struct {
	name string
	args func(file string, timeoutS int, seed int) []string
	fix  func(q string) string
}

func solverSpecs() []solverSpec {
	return []solverSpec{
		{"z3-new", func(f string, t, seed int) []string {
			return []string{"z3-new", fmt.Sprintf("-T:%d", t), fmt.Sprintf("smt.random_seed=%d", seed), f}
		}, nil},
		{"z3-new/0", func(f string, t, seed int) []string {
			return []string{"z3-new", fmt.Sprintf("-T:%d", t), "smt.random_seed=0", f}
		}, nil},
		{"z3", func(f string, t, seed int) []string {
			return []string{"z3", fmt.Sprintf("-T:%d", t), fmt.Sprintf("smt.random_seed=%d", seed), f}
		}, nil},
		{"cvc5", func(f string, t, seed int) []string {
			return []string{"cvc5", "--strings-exp", "--produce-models", "--incremental", fmt.Sprintf("--tlimit=%d", t*1000), fmt.Sprintf("--seed=%d", seed), f}
		}, func(q string) string { return "(set-logic ALL)\n" + q }},
	}
}

var scratchDir string
var scratchOnce sync.Once

func scratch() string {
	scratchOnce.Do(func() {
		d, err := os.MkdirTemp("", "goavc-")
		if err != nil {
			panic(err)
		}
		scratchDir = d
	})
	return scratchDir
}

func cleanupScratch() {
	if scratchDir != "" {
		os.RemoveAll(scratchDir)
	}
}

var solverSem = make(chan struct{}, 5)

// solve races the installed solvers on a query. getValues, if non-empty, is a
// list of terms whose values are requested when the answer is sat.
func solve(name, query string, getValues []string, timeoutS, seed int, only string) SolverResult {
	solverSem <- struct{}{}
	defer func() { <-solverSem }()
	dir := scratch()
	base := filepath.Join(dir, strings.NewReplacer("/", "_", " ", "_", "*", "_", "(", "_", ")", "_", "$", "_").Replace(name))
	full := query + "\n(check-sat)\n"
	if len(getValues) > 0 {
		full += "(get-value (" + strings.Join(getValues, " ") + "))\n"
	}
	type res struct {
		spec   solverSpec
		status string
		out    string
		ms     int64
	}
	specs := solverSpecs()
	ctx, cancel := context.WithCancel(context.Background())
	defer cancel()
	ch := make(chan res, len(specs))
	n := 0
	for i, sp := range specs {
		if only != "" && sp.name != only {
			continue
		}
		n++
		go func(i int, sp solverSpec) {
			q := "(set-option :produce-models true)\n" + full
			if sp.fix != nil {
				q = "(set-option :produce-models true)\n" + sp.fix(full)
			}
			file := fmt.Sprintf("%s.%s.smt2", base, strings.ReplaceAll(sp.name, "/", "_"))
			os.WriteFile(file, []byte(q), 0o644)
			args := sp.args(file, timeoutS, seed)
			start := time.Now()
			cctx, ccancel := context.WithTimeout(ctx, time.Duration(timeoutS+2)*time.Second)
			defer ccancel()
			cmd := exec.CommandContext(cctx, args[0], args[1:]...)
			var out bytes.Buffer
			cmd.Stdout = &out
			cmd.Stderr = &out
			cmd.Run()
			ms := time.Since(start).Milliseconds()
			first := strings.TrimSpace(strings.SplitN(out.String(), "\n", 2)[0])
			status := "error"
			switch first {
			case "unsat", "sat", "unknown":
				status = first
			case "timeout":
				status = "timeout"
			default:
				if cctx.Err() != nil {
					status = "timeout"
				}
			}
			ch <- res{sp, status, out.String(), ms}
		}(i, sp)
	}
	all := map[string]string{}
	var best *res
	for i := 0; i < n; i++ {
		r := <-ch
		all[r.spec.name] = r.status
		if r.status == "unsat" || r.status == "sat" {
			rr := r
			best = &rr
			break
		}
		if best == nil || (best.status == "error" && r.status != "error") {
			rr := r
			best = &rr
		}
	}
	cancel()
	return SolverResult{Status: best.status, Solver: best.spec.name, Ms: best.ms, Output: best.out, All: all}
}
