package main

import (
	"fmt"
	"os"
	"path/filepath"
	"sort"
	"strconv"
	"strings"
)

// Clause is one requires/ensures/invariant line of a contract.
type Clause struct {
	Label     string
	Star      bool // derived from the property statement: may become a VIOLATION
	Src       string
	Expr      *CExpr
	Props     []string // properties served (defaults to the contract's)
	Withdrawn bool     // not assumed at call sites (known finding, or a helper clause that no longer holds)
	Line      string   // file:line
	Local     bool     // "proves": checked on the body, never assumed by callers
	Assumed   bool     // "assumed": assumed by callers, NOT checked on the body (an assumption, listed in the evidence)
}

type LoopSpec struct {
	// Deterministic: the loop ranges over a map and its effect must not
	// depend on the iteration order (commutativity obligation).
	Deterministic bool
	DetStar       bool
	DetProps      []string
	Invariants    []*Clause
	Steps         []*Clause // relations between the state at the loop head (prev(K, e)) and at the end of one iteration
	Modifies      []string  // extra heap keys havocked (rarely needed)
}

// SortKey states what a sort.Slice comparator orders by.
type SortKey struct {
	Var  string // name of the element in Text
	Text string // key expression
}

type LetDef struct {
	Name string
	Expr *CExpr
}

type CallSpec struct {
	Target string // name of a function-typed parameter, free variable or local
	C      *Contract
}

// Contract is the specification of one function (in /repo, or an assumed one
// for a dependency).
type Contract struct {
	Kind            string // func | extern | iface | callspec
	Name            string // contract-level name ("(*mux).Vars", "errors.As", "net/http.ResponseWriter.Header")
	Pkg             string // import path of the package (func contracts)
	Params          []string
	Locals          []string // the target's named locals, in declaration order (see rename.go)
	LocalTypes      map[string]string
	Captures        []string // the contract's names for the closure's captured variables: bound per type, by position
	CaptureTypes    map[string]string
	Props           []string
	Requires        []*Clause
	Ensures         []*Clause
	Modifies        []*CExpr // nil = not stated
	UnknownPreserve []*CExpr
	Preserves       []*CExpr // with modifies all: heap keys that are nevertheless unchanged (T.f, elems(*T), global(v))
	ModAll          bool
	ModNone         bool
	ModStated       bool
	Loops           map[int]*LoopSpec
	SortKeys        map[int]*SortKey
	Lets            []*LetDef
	CallSpecs       map[string]*Contract
	Inline          bool
	NoInline        bool
	Base            *Contract // callspec refining a module function: that function's own contract (set at the call)
	Trusted         bool      // contract assumed, body not verified (externs are always trusted)
	Replay          string
	Panics          []*Clause
	Splits          []*Clause
	Asserts         []*AssertSpec
	Pure            bool
	File            string
	Opts            map[string]string
	FrameStar       bool // the frame obligation is a ★ obligation (C20)
	FrameProps      []string
}

// AssertSpec is an assertion attached to the N-th instruction of a kind
// (mapupdate, store) of the function body, in source order.
type AssertSpec struct {
	Kind   string
	Ord    int
	Field  string // fieldstore: "T.f"
	Clause *Clause
}

// Guard states the lock discipline of a package-level map: every lookup must
// satisfy Read and every update Write (expressions over ghost lock state).
type Guard struct {
	Field       string // fieldguard: "T.f" (a struct field instead of a package-level map)
	Global      string
	Pkg         string
	Read, Write *CExpr
	Props       []string
	File        string
}

// DataInv is a representation invariant of the design model: `datainv T.f label: EXPR` (or `datainv elems(T)
// label: EXPR`) says what every value stored in field f of a T (every element of a []T) satisfies; `value` is the
// stored value, `object` the struct pointer. Functions under `opt safety full` ASSUME it of values they read from
// objects they did not allocate themselves and must ESTABLISH it at every store they execute.
type DataInv struct {
	Field string // "T.f" or "elems(T)"
	Pkg   string
	Label string
	Expr  *CExpr
	Src   string
	File  string
}

type GhostVar struct {
	Name string
	Sort Sort
	// SpecOnly ghosts are pure specification state (phases, "done" sets):
	// only contracts change them, code without a contract cannot.
	SpecOnly bool
}

type SpecFn struct {
	Name   string
	Params []Sort
	Result Sort
}

type Lemma struct {
	Name  string
	Props []string
	Expr  *CExpr
	Src   string
	File  string
	Pkg   string
	Star  bool
}

type Specs struct {
	Prelude   []string
	Ghosts    map[string]*GhostVar
	Fns       map[string]*SpecFn
	Consts    map[string]*CExpr
	Contracts map[string]*Contract // key: kind-specific (see keyFor*)
	Lemmas    []*Lemma
	Axioms    []*Lemma
	Guards    []*Guard
	DataInvs  []*DataInv
	Files     []string
	Macros    map[string]*Macro
	// GlobalFacts: heap key of a dependency's package-level variable -> predicate assumed of every value read from it
	GlobalFacts map[string]string
	// Census: per package, the functions known to range over a map without a determinism proof (name -> number of
	// map ranges). Any other function of the package that ranges over a map must carry `opt maprange deterministic`.
	Census map[string]*Census
}

type Census struct {
	Pkg      string
	Props    []string
	Unproved map[string]int
	File     string
}

type Macro struct {
	Name   string
	Params []string
	Body   *CExpr
}

func newSpecs() *Specs {
	return &Specs{Ghosts: map[string]*GhostVar{}, Fns: map[string]*SpecFn{}, Consts: map[string]*CExpr{},
		Contracts: map[string]*Contract{}, Macros: map[string]*Macro{}}
}

func funcKey(pkg, name string) string { return "func:" + pkg + "." + name }
func externKey(name string) string    { return "extern:" + name }
func ifaceKey(name string) string     { return "iface:" + name }

type specLine struct {
	text string
	pos  string
}

// readSpecLines extracts the contract lines of a file. In .go files only
// "//@" comment lines count; in .spec files every line counts ("//" and "#"
// start comments).
func readSpecLines(path string) ([]specLine, error) {
	data, err := os.ReadFile(path)
	if err != nil {
		return nil, err
	}
	isGo := strings.HasSuffix(path, ".go")
	var out []specLine
	for i, ln := range strings.Split(string(data), "\n") {
		pos := fmt.Sprintf("%s:%d", path, i+1)
		t := strings.TrimRight(ln, " \t\r")
		if isGo {
			tt := strings.TrimLeft(t, " \t")
			if !strings.HasPrefix(tt, "//@") {
				continue
			}
			t = strings.TrimPrefix(tt, "//@")
			t = strings.TrimPrefix(t, " ")
		} else {
			tt := strings.TrimLeft(t, " \t")
			if strings.HasPrefix(tt, "#") || strings.HasPrefix(tt, "//") && !strings.HasPrefix(tt, "//@") {
				continue
			}
			t = strings.TrimPrefix(strings.TrimPrefix(tt, "//@"), " ")
			if strings.HasPrefix(ln, " ") || strings.HasPrefix(ln, "\t") {
				t = " " + t
			}
		}
		// strip trailing comment " // ..." outside strings
		t = stripComment(t)
		if strings.TrimSpace(t) == "" {
			continue
		}
		// continuation
		ts := strings.TrimSpace(t)
		if strings.HasPrefix(ts, "..") && len(out) > 0 {
			out[len(out)-1].text += " " + strings.TrimSpace(strings.TrimPrefix(ts, ".."))
			continue
		}
		out = append(out, specLine{t, pos})
	}
	return expandBlocks(out), nil
}

// expandBlocks implements `block NAME` (an unindented line followed by indented clause lines that belong to
// no contract) and `use NAME` (an indented line inside a contract, replaced by the block's lines, which keep the
// position of the `use` line): clause groups several contracts of one file share (call specifications of the
// type helpers, preserve lists).
func expandBlocks(lines []specLine) []specLine {
	blocks := map[string][]specLine{}
	var out []specLine
	cur := ""
	for _, l := range lines {
		indented := strings.HasPrefix(l.text, " ") || strings.HasPrefix(l.text, "\t")
		ts := strings.TrimSpace(l.text)
		if !indented {
			cur = ""
			if strings.HasPrefix(ts, "block ") {
				cur = strings.TrimSpace(strings.TrimPrefix(ts, "block "))
				blocks[cur] = nil
				continue
			}
			out = append(out, l)
			continue
		}
		if cur != "" {
			blocks[cur] = append(blocks[cur], l)
			continue
		}
		if strings.HasPrefix(ts, "use ") {
			name := strings.TrimSpace(strings.TrimPrefix(ts, "use "))
			if b, ok := blocks[name]; ok {
				for _, bl := range b {
					out = append(out, specLine{bl.text, l.pos})
				}
				continue
			}
		}
		out = append(out, l)
	}
	return out
}

func stripComment(s string) string {
	inStr := false
	for i := 0; i < len(s)-1; i++ {
		c := s[i]
		if c == '"' {
			inStr = !inStr
		}
		if c == '\\' && inStr {
			i++
			continue
		}
		if !inStr && c == '/' && s[i+1] == '/' && (i == 0 || s[i-1] == ' ' || s[i-1] == '\t') {
			return s[:i]
		}
	}
	return s
}

// loadSpecFile parses one contract/model file into specs. pkg is the import
// path for func contracts ("" for model files).
func (sp *Specs) loadSpecFile(path, pkg string) error {
	lines, err := readSpecLines(path)
	if err != nil {
		return err
	}
	sp.Files = append(sp.Files, path)
	var cur *Contract
	var curCS *Contract
	fail := func(l specLine, format string, args ...any) error {
		return fmt.Errorf("%s: %s", l.pos, fmt.Sprintf(format, args...))
	}
	for _, l := range lines {
		indented := strings.HasPrefix(l.text, " ") || strings.HasPrefix(l.text, "\t")
		t := strings.TrimSpace(l.text)
		word, rest := splitWord(t)
		if !indented {
			cur, curCS = nil, nil
			switch word {
			case "package":
				continue
			case "smt":
				sp.Prelude = append(sp.Prelude, rest)
				if err := sp.registerSmtDecl(rest); err != nil {
					return fail(l, "%v", err)
				}
			case "ghost":
				w2, r2 := splitWord(rest)
				specOnly := false
				if w2 == "spec" {
					specOnly = true
					w2, r2 = splitWord(r2)
				}
				if w2 != "var" {
					return fail(l, "expected 'ghost [spec] var'")
				}
				name, srt := splitWord(r2)
				sp.Ghosts[name] = &GhostVar{Name: name, Sort: Sort(strings.TrimSpace(srt)), SpecOnly: specOnly}
			case "maprange-census":
				// maprange-census property Cxx: f=n g=m ...   (functions of this package that range over a map and
				// are NOT proved independent of the iteration order, with their number of map ranges)
				r2 := strings.TrimSpace(rest)
				if !strings.HasPrefix(r2, "property ") {
					return fail(l, "maprange-census property Cxx: name=count ...")
				}
				r2 = strings.TrimPrefix(r2, "property ")
				i := strings.Index(r2, ":")
				if i < 0 {
					return fail(l, "maprange-census: ':' expected")
				}
				cs := &Census{Pkg: pkg, Props: strings.Fields(r2[:i]), Unproved: map[string]int{}, File: l.pos}
				for _, f := range strings.Fields(r2[i+1:]) {
					j := strings.LastIndex(f, "=")
					if j < 0 {
						return fail(l, "maprange-census: name=count expected, got %q", f)
					}
					n, err := strconv.Atoi(f[j+1:])
					if err != nil {
						return fail(l, "maprange-census: %v", err)
					}
					cs.Unproved[f[:j]] = n
				}
				if sp.Census == nil {
					sp.Census = map[string]*Census{}
				}
				sp.Census[pkg] = cs
			case "globalfact":
				// globalfact <import path>.<Var> <predicate>: every value read from that package-level
				// variable of a dependency satisfies the (uninterpreted) predicate -- an assumption
				g, pred := splitWord(rest)
				i := strings.LastIndex(g, ".")
				if i < 0 || strings.TrimSpace(pred) == "" {
					return fail(l, "expected 'globalfact <import path>.<Var> <predicate>'")
				}
				path := g[:i]
				if j := strings.LastIndex(path, "/"); j >= 0 {
					path = path[j+1:]
				}
				if sp.GlobalFacts == nil {
					sp.GlobalFacts = map[string]string{}
				}
				sp.GlobalFacts["Glob!"+path+"."+g[i+1:]] = strings.TrimSpace(pred)
			case "const":
				name, r2 := splitWord(rest)
				r2 = strings.TrimSpace(strings.TrimPrefix(strings.TrimSpace(r2), "="))
				e, err := parseCExpr(r2)
				if err != nil {
					return fail(l, "%v", err)
				}
				sp.Consts[pkg+"::"+name] = e
			case "macro":
				// macro name(a, b) = expr
				i := strings.Index(rest, "(")
				j := strings.Index(rest, ")")
				k := strings.Index(rest, "=")
				if i < 0 || j < i || k < j {
					return fail(l, "bad macro")
				}
				m := &Macro{Name: strings.TrimSpace(rest[:i])}
				for _, p := range strings.Split(rest[i+1:j], ",") {
					if p = strings.TrimSpace(p); p != "" {
						m.Params = append(m.Params, p)
					}
				}
				e, err := parseCExpr(rest[k+1:])
				if err != nil {
					return fail(l, "%v", err)
				}
				m.Body = e
				sp.Macros[pkg+"::"+m.Name] = m
			case "func", "extern", "iface":
				name := strings.TrimSpace(rest)
				cur = &Contract{Kind: word, Name: name, Pkg: pkg, Loops: map[int]*LoopSpec{}, CallSpecs: map[string]*Contract{}, File: l.pos, Opts: map[string]string{}}
				var key string
				switch word {
				case "func":
					key = funcKey(pkg, name)
				case "extern":
					key = externKey(name)
					cur.Trusted = true
				case "iface":
					key = ifaceKey(name)
					cur.Trusted = true
				}
				if _, dup := sp.Contracts[key]; dup {
					return fail(l, "duplicate contract %s", key)
				}
				sp.Contracts[key] = cur
			case "guard", "fieldguard":
				// guard GLOBAL read EXPR write EXPR [property Cxx ...]
				// fieldguard T.f read EXPR write EXPR [property Cxx ...]: every direct load / store of field f of a
				// T (`object` is the struct pointer); taking the field's address for a call is not an access
				name, r2 := splitWord(rest)
				g := &Guard{Global: name, Pkg: pkg, File: l.pos}
				if word == "fieldguard" {
					g.Field, g.Global = name, ""
				}
				ri := strings.Index(r2, "read ")
				wi := strings.Index(r2, " write ")
				pi := strings.Index(r2, " property ")
				if ri != 0 || wi < 0 {
					return fail(l, "guard NAME read EXPR write EXPR [property ...]")
				}
				end := len(r2)
				if pi > 0 {
					end = pi
					g.Props = strings.Fields(r2[pi+len(" property "):])
				}
				var err error
				if g.Read, err = parseCExpr(r2[len("read "):wi]); err != nil {
					return fail(l, "%v", err)
				}
				if g.Write, err = parseCExpr(r2[wi+len(" write ") : end]); err != nil {
					return fail(l, "%v", err)
				}
				sp.Guards = append(sp.Guards, g)
			case "datainv":
				name, r2 := splitWord(rest)
				i := strings.Index(r2, ":")
				if i < 0 {
					return fail(l, "datainv T.f label: EXPR")
				}
				e, err := parseCExpr(r2[i+1:])
				if err != nil {
					return fail(l, "%v", err)
				}
				sp.DataInvs = append(sp.DataInvs, &DataInv{Field: name, Pkg: pkg, Label: strings.TrimSpace(r2[:i]), Expr: e, Src: strings.TrimSpace(r2[i+1:]), File: l.pos})
			case "axiom":
				i := strings.Index(rest, ":")
				if i < 0 {
					return fail(l, "axiom needs ':'")
				}
				e, err := parseCExpr(rest[i+1:])
				if err != nil {
					return fail(l, "%v", err)
				}
				sp.Axioms = append(sp.Axioms, &Lemma{Name: strings.TrimSpace(rest[:i]), Expr: e, Src: strings.TrimSpace(rest[i+1:]), File: l.pos, Pkg: pkg})
			case "lemma":
				// lemma NAME [property Cxx ...]: EXPR
				i := strings.Index(rest, ":")
				if i < 0 {
					return fail(l, "lemma needs ':'")
				}
				head := strings.Fields(rest[:i])
				lm := &Lemma{Name: head[0], Src: strings.TrimSpace(rest[i+1:]), File: l.pos, Pkg: pkg, Star: true}
				for _, h := range head[1:] {
					if h != "property" {
						lm.Props = append(lm.Props, h)
					}
				}
				e, err := parseCExpr(lm.Src)
				if err != nil {
					return fail(l, "%v", err)
				}
				lm.Expr = e
				sp.Lemmas = append(sp.Lemmas, lm)
			default:
				return fail(l, "unknown top-level directive %q", word)
			}
			continue
		}
		if cur == nil {
			return fail(l, "clause outside a contract")
		}
		c := cur
		if curCS != nil && strings.HasPrefix(l.text, "    ") && word != "callspec" {
			// deeper-indented clauses belong to the current callspec
			if lead := len(l.text) - len(strings.TrimLeft(l.text, " ")); lead >= 6 {
				c = curCS
			} else {
				curCS = nil
			}
		}
		switch word {
		case "property":
			c.Props = append(c.Props, strings.Fields(rest)...)
		case "params":
			c.Params = strings.Fields(strings.ReplaceAll(rest, ",", " "))
		case "locals":
			c.Locals = nil
			c.LocalTypes = map[string]string{}
			for _, f := range strings.Fields(rest) {
				n, t, _ := strings.Cut(f, ":")
				c.Locals = append(c.Locals, n)
				c.LocalTypes[n] = t
			}
		case "captures":
			c.Captures = nil
			if c.CaptureTypes == nil {
				c.CaptureTypes = map[string]string{}
			}
			for _, f := range strings.Fields(rest) {
				n, t, _ := strings.Cut(f, ":")
				c.Captures = append(c.Captures, n)
				c.CaptureTypes[n] = t
			}
		case "requires", "requires*":
			cl, err := parseClause(rest, l.pos, true)
			if err != nil {
				return fail(l, "%v", err)
			}
			cl.Star = word == "requires*"
			c.Requires = append(c.Requires, cl)
		case "assumed":
			// assumed label: e -- a postcondition callers may rely on that the body is not checked against
			cl, err := parseClause(rest, l.pos, true)
			if err != nil {
				return fail(l, "%v", err)
			}
			cl.Assumed = true
			c.Ensures = append(c.Ensures, cl)
		case "ensures", "ensures*", "proves", "proves*":
			// proves: a postcondition checked on the body that callers do not assume
			cl, err := parseClause(rest, l.pos, true)
			if err != nil {
				return fail(l, "%v", err)
			}
			cl.Star = strings.HasSuffix(word, "*")
			cl.Local = strings.HasPrefix(word, "proves")
			c.Ensures = append(c.Ensures, cl)
		case "panics_if":
			cl, err := parseClause(rest, l.pos, false)
			if err != nil {
				return fail(l, "%v", err)
			}
			c.Panics = append(c.Panics, cl)
		case "modifies", "modifies*":
			c.ModStated = true
			if word == "modifies*" {
				c.FrameStar = true
			}
			r := strings.TrimSpace(rest)
			switch r {
			case "nothing":
				c.ModNone = true
			case "all":
				c.ModAll = true
			default:
				for _, part := range splitTop(r, ',') {
					e, err := parseCExpr(part)
					if err != nil {
						return fail(l, "%v", err)
					}
					c.Modifies = append(c.Modifies, e)
				}
			}
		case "unknown_calls_preserve":
			// blanket assumption for this function: calls without a contract leave these heap keys unchanged
			for _, part := range splitTop(rest, ',') {
				e, err := parseCExpr(part)
				if err != nil {
					return fail(l, "%v", err)
				}
				c.UnknownPreserve = append(c.UnknownPreserve, e)
			}
		case "preserves":
			for _, part := range splitTop(rest, ',') {
				e, err := parseCExpr(part)
				if err != nil {
					return fail(l, "%v", err)
				}
				c.Preserves = append(c.Preserves, e)
			}
		case "frameprop":
			c.FrameProps = append(c.FrameProps, strings.Fields(rest)...)
		case "loop":
			ks, r2 := splitWord(rest)
			k, err := strconv.Atoi(ks)
			if err != nil {
				return fail(l, "loop ordinal: %v", err)
			}
			kind, r3 := splitWord(r2)
			ls := c.Loops[k]
			if ls == nil {
				ls = &LoopSpec{}
				c.Loops[k] = ls
			}
			switch kind {
			case "invariant", "invariant*":
				cl, err := parseClause(r3, l.pos, true)
				if err != nil {
					return fail(l, "%v", err)
				}
				cl.Star = kind == "invariant*"
				if cl.Label == "" {
					cl.Label = fmt.Sprintf("inv%d", len(ls.Invariants)+1)
				}
				ls.Invariants = append(ls.Invariants, cl)
			case "step", "step*":
				cl, err := parseClause(r3, l.pos, true)
				if err != nil {
					return fail(l, "%v", err)
				}
				if cl.Label == "" {
					cl.Label = fmt.Sprintf("rel%d", len(ls.Steps)+1)
				}
				cl.Star = kind == "step*"
				ls.Steps = append(ls.Steps, cl)
			case "modifies":
				for _, part := range splitTop(r3, ',') {
					ls.Modifies = append(ls.Modifies, strings.TrimSpace(part))
				}
			case "deterministic", "deterministic*":
				ls.Deterministic = true
				ls.DetStar = kind == "deterministic*"
				ls.DetProps = strings.Fields(r3)
			default:
				return fail(l, "unknown loop clause %q", kind)
			}
		case "sortkey":
			// sortkey N elem: key expression  (the N-th sort.Slice call orders by key(elem) ascending)
			ns, r2 := splitWord(rest)
			n, err := strconv.Atoi(ns)
			if err != nil {
				return fail(l, "sortkey ordinal: %v", err)
			}
			i := strings.Index(r2, ":")
			if i < 0 {
				return fail(l, "sortkey N elem: key")
			}
			if c.SortKeys == nil {
				c.SortKeys = map[int]*SortKey{}
			}
			c.SortKeys[n] = &SortKey{Var: strings.TrimSpace(r2[:i]), Text: strings.TrimSpace(r2[i+1:])}
		case "let":
			name, r2 := splitWord(rest)
			r2 = strings.TrimSpace(strings.TrimPrefix(strings.TrimSpace(r2), "="))
			e, err := parseCExpr(r2)
			if err != nil {
				return fail(l, "%v", err)
			}
			c.Lets = append(c.Lets, &LetDef{name, e})
		case "callspec":
			// callspec TARGET [params a b c]
			f := strings.Fields(strings.ReplaceAll(rest, ",", " "))
			if len(f) == 0 {
				return fail(l, "callspec needs a target")
			}
			curCS = &Contract{Kind: "callspec", Name: f[0], Pkg: pkg, Loops: map[int]*LoopSpec{}, CallSpecs: map[string]*Contract{}, File: l.pos, Trusted: true, Opts: map[string]string{}}
			if len(f) > 2 && f[1] == "params" {
				curCS.Params = f[2:]
			}
			cur.CallSpecs[f[0]] = curCS
		case "at":
			// at mapupdate N assert[*] label: expr
			kind, r2 := splitWord(rest)
			ns, r3 := splitWord(r2)
			n, err := strconv.Atoi(ns)
			if ns == "*" {
				n, err = 0, nil // every instruction of that kind
			}
			field := ""
			if kind == "fieldstore" {
				// at fieldstore T.f assert[*] label: expr  -- every store to field f of a T
				field, n, err = ns, 0, nil
			}
			if err != nil && (kind == "lookup" || kind == "mapupdate") && strings.Contains(ns, ".") {
				// at lookup T.f assert[*] label: expr  -- every lookup / update of the map held in field f of a T
				field, n, err = ns, 0, nil
			}
			if err != nil {
				return fail(l, "at: ordinal or * expected")
			}
			aw, r4 := splitWord(r3)
			if aw != "assert" && aw != "assert*" {
				return fail(l, "at: 'assert' expected")
			}
			cl, err := parseClause(r4, l.pos, true)
			if err != nil {
				return fail(l, "%v", err)
			}
			cl.Star = aw == "assert*"
			c.Asserts = append(c.Asserts, &AssertSpec{Kind: kind, Ord: n, Field: field, Clause: cl})
		case "split":
			cl, err := parseClause(rest, l.pos, false)
			if err != nil {
				return fail(l, "%v", err)
			}
			c.Splits = append(c.Splits, cl)
		case "inline":
			c.Inline = true
		case "noinline":
			c.NoInline = true
		case "trusted":
			c.Trusted = true
		case "pure":
			c.Pure = true
		case "replay":
			c.Replay = strings.TrimSpace(rest)
		case "opt":
			k, v := splitWord(rest)
			c.Opts[k] = strings.TrimSpace(v)
		default:
			return fail(l, "unknown clause %q", word)
		}
	}
	return nil
}

func splitWord(s string) (string, string) {
	s = strings.TrimSpace(s)
	i := strings.IndexAny(s, " \t")
	if i < 0 {
		return s, ""
	}
	return s[:i], strings.TrimSpace(s[i+1:])
}

// splitTop splits s at sep occurring outside parentheses, brackets and strings.
func splitTop(s string, sep byte) []string {
	var out []string
	depth, start := 0, 0
	inStr := false
	for i := 0; i < len(s); i++ {
		c := s[i]
		if inStr {
			if c == '\\' {
				i++
			} else if c == '"' {
				inStr = false
			}
			continue
		}
		switch c {
		case '"':
			inStr = true
		case '(', '[':
			depth++
		case ')', ']':
			depth--
		default:
			if c == sep && depth == 0 {
				out = append(out, strings.TrimSpace(s[start:i]))
				start = i + 1
			}
		}
	}
	out = append(out, strings.TrimSpace(s[start:]))
	return out
}

// parseClause parses "[label:] expr".
func parseClause(s, pos string, labelled bool) (*Clause, error) {
	s = strings.TrimSpace(s)
	cl := &Clause{Line: pos}
	if labelled {
		// a label is an identifier-ish word followed by ':' (not '::')
		for i := 0; i < len(s); i++ {
			c := s[i]
			if c == ':' {
				if i+1 < len(s) && s[i+1] == ':' {
					break
				}
				if i > 0 {
					cl.Label = s[:i]
					s = strings.TrimSpace(s[i+1:])
				}
				break
			}
			if !(c >= 'a' && c <= 'z' || c >= 'A' && c <= 'Z' || c >= '0' && c <= '9' || c == '.' || c == '_' || c == '-') {
				break
			}
		}
	}
	cl.Src = s
	e, err := parseCExpr(s)
	if err != nil {
		return nil, err
	}
	cl.Expr = e
	return cl, nil
}

// registerSmtDecl records the signature of a declare-fun/define-fun prelude
// line so that contract expressions can call it.
func (sp *Specs) registerSmtDecl(line string) error {
	sx, err := parseSexps(line)
	if err != nil {
		return err
	}
	for _, s := range sx {
		if len(s.list) < 4 || s.list[0].atom == "" {
			continue
		}
		switch s.list[0].atom {
		case "declare-fun":
			fn := &SpecFn{Name: s.list[1].atom, Result: Sort(s.list[3].String())}
			for _, p := range s.list[2].list {
				fn.Params = append(fn.Params, Sort(p.String()))
			}
			sp.Fns[fn.Name] = fn
		case "define-fun", "define-fun-rec":
			if len(s.list) < 5 {
				continue
			}
			fn := &SpecFn{Name: s.list[1].atom, Result: Sort(s.list[3].String())}
			for _, p := range s.list[2].list {
				if len(p.list) == 2 {
					fn.Params = append(fn.Params, Sort(p.list[1].String()))
				}
			}
			sp.Fns[fn.Name] = fn
		case "declare-const":
			sp.Fns[s.list[1].atom] = &SpecFn{Name: s.list[1].atom, Result: Sort(s.list[2].String())}
		}
	}
	return nil
}

type sexp struct {
	atom   string
	list   []*sexp
	isList bool
}

func (s *sexp) String() string {
	if !s.isList {
		return s.atom
	}
	var parts []string
	for _, c := range s.list {
		parts = append(parts, c.String())
	}
	return "(" + strings.Join(parts, " ") + ")"
}

func parseSexps(src string) ([]*sexp, error) {
	var out []*sexp
	i := 0
	var parse func() (*sexp, error)
	skip := func() {
		for i < len(src) {
			if src[i] == ' ' || src[i] == '\t' || src[i] == '\n' || src[i] == '\r' {
				i++
			} else if src[i] == ';' {
				for i < len(src) && src[i] != '\n' {
					i++
				}
			} else {
				break
			}
		}
	}
	parse = func() (*sexp, error) {
		skip()
		if i >= len(src) {
			return nil, fmt.Errorf("unexpected end of s-expression")
		}
		switch c := src[i]; {
		case c == '(':
			i++
			s := &sexp{isList: true}
			for {
				skip()
				if i >= len(src) {
					return nil, fmt.Errorf("unbalanced parenthesis")
				}
				if src[i] == ')' {
					i++
					return s, nil
				}
				ch, err := parse()
				if err != nil {
					return nil, err
				}
				s.list = append(s.list, ch)
			}
		case c == ')':
			return nil, fmt.Errorf("unexpected )")
		case c == '"':
			j := i + 1
			for j < len(src) {
				if src[j] == '"' {
					if j+1 < len(src) && src[j+1] == '"' {
						j += 2
						continue
					}
					break
				}
				j++
			}
			s := &sexp{atom: src[i : j+1]}
			i = j + 1
			return s, nil
		case c == '|':
			j := strings.IndexByte(src[i+1:], '|')
			if j < 0 {
				return nil, fmt.Errorf("unterminated |symbol|")
			}
			s := &sexp{atom: src[i : i+j+2]}
			i += j + 2
			return s, nil
		default:
			j := i
			for j < len(src) && !strings.ContainsRune(" \t\n\r()", rune(src[j])) {
				j++
			}
			s := &sexp{atom: src[i:j]}
			i = j
			return s, nil
		}
	}
	for {
		skip()
		if i >= len(src) {
			return out, nil
		}
		s, err := parse()
		if err != nil {
			return nil, err
		}
		out = append(out, s)
	}
}

// loadAllSpecs reads the model files of /verif/models and the contract files
// of the given packages.
func loadAllSpecs(l *Loaded, modelsDir string) (*Specs, error) {
	sp := newSpecs()
	models, _ := filepath.Glob(filepath.Join(modelsDir, "*.spec"))
	sort.Strings(models)
	for _, m := range models {
		if err := sp.loadSpecFile(m, ""); err != nil {
			return nil, err
		}
	}
	var paths []string
	for p := range l.All {
		if strings.HasPrefix(p, modPath) {
			paths = append(paths, p)
		}
	}
	sort.Strings(paths)
	for _, p := range paths {
		pk := l.All[p]
		for _, f := range pk.GoFiles {
			if filepath.Base(f) == "verif_contracts.go" {
				if err := sp.loadSpecFile(f, p); err != nil {
					return nil, err
				}
			}
		}
	}
	return sp, nil
}
