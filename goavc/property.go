package main

import (
	"encoding/json"
	"flag"
	"fmt"
	"go/types"
	"os"
	"os/exec"
	"path/filepath"
	"sort"
	"strconv"
	"strings"
	"sync"
	"time"

	"golang.org/x/tools/go/ssa"
)

type knownFinding struct {
	Property   string `json:"property"`
	Obligation string `json:"obligation"`
	Text       string `json:"text"`
	InputClass string `json:"input_class,omitempty"`
	Witness    string `json:"witness,omitempty"`
	Status     string `json:"status,omitempty"` // "" = open finding; "fixed" entries suppress nothing
	Commit     string `json:"commit,omitempty"`
}

type knownFile struct {
	Findings []knownFinding `json:"findings"`
	Fixed    []string       `json:"fixed"`
}

// outRoot is where evidence and replay files go: /verif for a run against
// /repo itself, a scratch directory inside the tree under test otherwise
// (runs against scratch worktrees must not overwrite the committed evidence).
func outRoot() string {
	if d := os.Getenv("GOAVC_REPO"); d != "" && filepath.Clean(d) != "/repo" {
		return filepath.Join(d, ".goavc-out")
	}
	return verifRoot()
}

func verifRoot() string {
	if d := os.Getenv("GOAVC_VERIF"); d != "" {
		return d
	}
	exe, err := os.Executable()
	if err == nil {
		d := filepath.Dir(filepath.Dir(exe))
		if _, err := os.Stat(filepath.Join(d, "properties.jsonl")); err == nil {
			return d
		}
	}
	return "/verif"
}

func loadKnown() *knownFile {
	kf := &knownFile{}
	data, err := os.ReadFile(filepath.Join(verifRoot(), "known_findings.json"))
	if err == nil {
		json.Unmarshal(data, kf)
	}
	return kf
}

// contractPackages scans the repository for contract files and returns the
// package patterns that carry contracts or lemmas for the property.
func contractPackages(prop string) ([]string, error) {
	root := repoRoot()
	var pats []string
	err := filepath.Walk(root, func(path string, info os.FileInfo, err error) error {
		if err != nil {
			return nil
		}
		if info.IsDir() && (info.Name() == ".git" || info.Name() == "testdata" || info.Name() == "node_modules") {
			return filepath.SkipDir
		}
		if info.IsDir() || info.Name() != "verif_contracts.go" {
			return nil
		}
		sp := newSpecs()
		rel, _ := filepath.Rel(root, filepath.Dir(path))
		if err := sp.loadSpecFile(path, "x"); err != nil {
			return err
		}
		has := false
		for _, ct := range sp.Contracts {
			for _, p := range ct.Props {
				if p == prop {
					has = true
				}
			}
			for _, e := range ct.Ensures {
				for _, p := range e.Props {
					if p == prop {
						has = true
					}
				}
			}
			for _, p := range ct.FrameProps {
				if p == prop {
					has = true
				}
			}
		}
		for _, lm := range sp.Lemmas {
			for _, p := range lm.Props {
				if p == prop {
					has = true
				}
			}
		}
		for _, cs := range sp.Census {
			if hasProp(cs.Props, prop) {
				has = true
			}
		}
		if has {
			pats = append(pats, "./"+rel)
		}
		return nil
	})
	sort.Strings(pats)
	return pats, err
}

func hasProp(props []string, p string) bool {
	for _, x := range props {
		if x == p {
			return true
		}
	}
	return false
}

type oblRecord struct {
	Name    string            `json:"name"`
	Kind    string            `json:"kind"`
	Star    bool              `json:"star"`
	Role    string            `json:"role"` // property | supporting
	Result  string            `json:"result"`
	Solver  string            `json:"solver"`
	Ms      int64             `json:"ms"`
	Solvers map[string]string `json:"solvers,omitempty"`
}

func cmdCheck(args []string) {
	fs := flag.NewFlagSet("check", flag.ExitOnError)
	prop := fs.String("property", "", "property id")
	tier := fs.String("tier", "quick", "quick|thorough")
	fs.Parse(args)
	if t := os.Getenv("VERIF_TIER"); t != "" && *tier == "" {
		*tier = t
	}
	seed := 1
	if s := os.Getenv("VERIF_SEED"); s != "" {
		if n, err := strconv.Atoi(s); err == nil {
			seed = n
		}
	}
	if *prop == "" {
		fmt.Fprintln(os.Stderr, "check: --property required")
		os.Exit(2)
	}
	defer cleanupScratch()
	code := runCheck(*prop, *tier, seed)
	cleanupScratch()
	os.Exit(code)
}

type checkRun struct {
	prop, tier string
	seed       int
	timeout    int
	l          *Loaded
	specs      *Specs
	reports    []*FuncReport
	worlds     map[*FuncReport]*World
	lemmaObls  []*Obligation
	lemmaW     map[*Obligation]*World
	role       map[*FuncReport]string
	drift      []string
}

func runCheck(prop, tier string, seed int) int {
	start := time.Now()
	evPath := filepath.Join(outRoot(), "evidence", prop+".json")
	os.MkdirAll(filepath.Dir(evPath), 0o755)
	os.Remove(evPath)
	timeout := 30
	if tier == "thorough" {
		timeout = 120
	}
	fail := func(format string, a ...any) int {
		msg := fmt.Sprintf(format, a...)
		fmt.Println("ERROR:", msg)
		rp := writeReplay(prop, "check-error", msg)
		fmt.Printf("VIOLATION property=%s replay=%s no-failing-input-found\n", prop, rp)
		return 1
	}
	pats, err := contractPackages(prop)
	if err != nil {
		return fail("reading contract files: %v", err)
	}
	if len(pats) == 0 {
		return fail("no contracts serve property %s", prop)
	}
	l, err := loadPackages(pats, nil)
	if err != nil {
		return fail("loading packages: %v", err)
	}
	specs, err := loadAllSpecs(l, modelsDir())
	if err != nil {
		return fail("loading contracts: %v", err)
	}
	known := loadKnown()
	clauseOf := func(name string) *Clause {
		for _, ct := range specs.Contracts {
			if ct.Kind != "func" {
				continue
			}
			for i, en := range ct.Ensures {
				lbl := en.Label
				if lbl == "" {
					lbl = fmt.Sprintf("post%d", i+1)
				}
				if shortPkg(ct.Pkg)+"."+ct.Name+"#ensures."+lbl == name {
					return en
				}
			}
		}
		return nil
	}
	for _, k := range known.Findings {
		if k.Status != "fixed" {
			if cl := clauseOf(k.Obligation); cl != nil {
				cl.Withdrawn = true
			}
		}
	}
	var drift []string
	var cr *checkRun
	for round := 0; ; round++ {
		cr = &checkRun{prop: prop, tier: tier, seed: seed, timeout: timeout, l: l, specs: specs, worlds: map[*FuncReport]*World{}, lemmaW: map[*Obligation]*World{}, role: map[*FuncReport]string{}}
		cr.drift = drift
		cr.generateAndSolve()
		// contract drift: a helper (non-★) postcondition that no longer holds is
		// withdrawn and everything is re-proved without assuming it
		again := false
		for _, rep := range cr.reports {
			for _, o := range rep.Obls {
				if o.Kind == "ensures" && !o.Star && !o.ok() && o.Clause != nil && !o.Clause.Withdrawn {
					o.Clause.Withdrawn = true
					drift = append(drift, o.Name)
					again = true
				}
			}
		}
		if !again || round >= 3 {
			break
		}
	}
	cr.drift = drift
	cr.boundedFallback()
	return cr.report(start, evPath)
}

// unrollBound is the number of times the bounded stand-in enters each loop head.
func unrollBound() int {
	if v := os.Getenv("GOAVC_UNROLL"); v != "" {
		n := 0
		fmt.Sscanf(v, "%d", &n)
		return n
	}
	return 4
}

// boundedFallback: a function whose obligations fail while its proof hints no longer fit its body (a helper
// loop invariant cannot be evaluated or is not inductive any more, the body has other loops than the contract
// describes, the function left the subset under the contract's hints) is checked again with its loops unrolled
// and no hint used. When every obligation of that bounded check discharges, the function is reported as
// "bounded" (held on everything explored, not proved); otherwise the failures of the deductive check stand.
func (cr *checkRun) boundedFallback() {
	n := unrollBound()
	if n <= 0 {
		return
	}
	known := loadKnown()
	isKnown := func(o *Obligation) bool {
		for _, k := range known.Findings {
			if k.Obligation == o.Name && k.Status != "fixed" {
				return true
			}
		}
		return o.KnownFailing || (o.Clause != nil && o.Clause.Withdrawn)
	}
	var wg sync.WaitGroup
	repl := make([]*FuncReport, len(cr.reports))
	replW := make([]*World, len(cr.reports))
	for i, rep := range cr.reports {
		ct := rep.Contract
		if ct == nil || ct.Opts["maprange"] == "deterministic" || ct.Opts["verify"] == "callsites" {
			continue
		}
		det := false
		for _, ls := range ct.Loops {
			det = det || ls.Deterministic
		}
		if det {
			continue
		}
		sp := cr.l.SPkgs[ct.Pkg]
		if sp == nil {
			continue
		}
		fn := allFunctions(cr.l, sp)[ct.Name]
		if fn == nil {
			continue
		}
		li := analyzeLoops(fn)
		if len(li.isHeader) == 0 && len(ct.Loops) == 0 {
			continue // no loop here and none in the contract: nothing the stand-in would do differently
		}
		// nested loops multiply: one entry fewer per loop head when a loop contains another
		nfn := n
		if os.Getenv("GOAVC_UNROLL") == "" {
			for h := range li.isHeader {
				for _, b := range li.body[h] {
					if b != h && li.isHeader[b] > 0 {
						nfn = n - 1
					}
				}
			}
		}
		why := ""
		failing := false
		if rep.Unsupported != "" {
			failing = true
			why = "outside the subset under the contract's hints: " + rep.Unsupported
		}
		for _, o := range rep.Obls {
			if o.ok() || isKnown(o) {
				continue
			}
			if cr.role[rep] == "property" && o.Kind == "ensures" && !hasProp(o.Props, cr.prop) {
				continue
			}
			failing = true
			if !o.Star && why == "" {
				switch o.Kind {
				case "loop.init", "loop.step", "loop.rel", "loopwrite", "assert", "frame":
					why = "helper obligation " + o.Label + " fails: the loop invariants do not describe this body"
				}
			}
		}
		if len(rep.SetAside) > 0 && why == "" {
			why = rep.SetAside[0]
		}
		if !failing || why == "" {
			continue
		}
		wg.Add(1)
		go func(i int, rep *FuncReport, why string, n int) {
			defer wg.Done()
			// the bound is lowered only when the unrolled body exceeds the generation budget
			var r2 *FuncReport
			var w2 *World
			for ; n >= 2; n-- {
				r2, w2 = verifyFunctionBounded(cr.l, cr.specs, rep.Contract, rep.Alias, n)
				if r2.Unsupported != "" {
					if os.Getenv("GOAVC_DEBUG") != "" {
						fmt.Fprintf(os.Stderr, "bounded stand-in of %s (bound %d): %s\n", rep.Name, n, r2.Unsupported)
					}
					if strings.Contains(r2.Unsupported, "generation budget") {
						continue
					}
					return
				}
				solveAll(w2, r2.Obls, cr.timeout, cr.seed)
				refuted, undecided := false, false
				for _, o := range r2.Obls {
					if !o.ok() && !isKnown(o) {
						if os.Getenv("GOAVC_DEBUG") != "" {
							fmt.Fprintf(os.Stderr, "bounded stand-in of %s (bound %d): %s %s\n", rep.Name, n, o.Name, o.Result.Status)
						}
						if o.Result.Status == "sat" {
							refuted = true
						} else {
							undecided = true
						}
					}
				}
				if refuted || undecided {
					// an obligation the solvers do not settle at this bound stays undecided: lowering the bound until
					// they do would explore less and less (it hid a seeded interleaving of validation and
					// finalisation that needs two roots to show)
					return
				}
				break
			}
			if n < 2 {
				return
			}
			r2.BoundedWhy = why
			r2.Renamed = rep.Renamed
			r2.Used, r2.Inlined = rep.Used, rep.Inlined
			for a := range w2.assumps {
				r2.Assumptions = append(r2.Assumptions, a)
			}
			r2.Assumptions = append(r2.Assumptions, fmt.Sprintf("BOUNDED (not proved): %s was checked with every loop entered at most %d times and no loop invariant, because %s", rep.Name, n, why))
			repl[i], replW[i] = r2, w2
		}(i, rep, why, nfn)
	}
	wg.Wait()
	for i, r2 := range repl {
		if r2 == nil {
			continue
		}
		old := cr.reports[i]
		cr.role[r2] = cr.role[old]
		cr.worlds[r2] = replW[i]
		cr.reports[i] = r2
	}
}

func (cr *checkRun) generateAndSolve() {
	prop, l, specs, timeout, seed := cr.prop, cr.l, cr.specs, cr.timeout, cr.seed
	// functions serving the property, then the closure of contracts they rely on
	var queue []*Contract
	seen := map[*Contract]bool{}
	var keys []string
	for k := range specs.Contracts {
		keys = append(keys, k)
	}
	sort.Strings(keys)
	for _, k := range keys {
		ct := specs.Contracts[k]
		if ct.Kind != "func" || (ct.Trusted && ct.Opts["verify"] != "callsites") {
			continue
		}
		serves := hasProp(ct.Props, prop) || hasProp(ct.FrameProps, prop)
		for _, e := range ct.Ensures {
			if hasProp(e.Props, prop) {
				serves = true
			}
		}
		if serves {
			queue = append(queue, ct)
			seen[ct] = true
		}
	}
	primary := len(queue)
	for i := 0; i < len(queue); i++ {
		ct := queue[i]
		rep, w := verifyFunctionRenamed(l, specs, ct, timeout, seed)
		cr.reports = append(cr.reports, rep)
		cr.worlds[rep] = w
		if i < primary {
			cr.role[rep] = "property"
		} else {
			cr.role[rep] = "supporting"
		}
		var used []string
		for k := range w.usedContracts {
			used = append(used, k)
		}
		sort.Strings(used)
		for _, k := range used {
			uc := w.usedContracts[k]
			rep.Used = append(rep.Used, k)
			if uc.Kind == "func" && uc.Trusted {
				// a goa function whose contract is assumed, not proved from its body
				rep.Assumptions = append(rep.Assumptions, "assumed contract (trusted, body not verified): func "+shortPkg(uc.Pkg)+"."+uc.Name)
			}
			if uc.Kind == "func" && (!uc.Trusted || uc.Opts["verify"] == "callsites") && !seen[uc] {
				seen[uc] = true
				queue = append(queue, uc)
			}
		}
		for a := range w.assumps {
			rep.Assumptions = append(rep.Assumptions, a)
		}
		for n := range w.inlined {
			rep.Inlined = append(rep.Inlined, n)
		}
		sort.Strings(rep.Inlined)
	}
	for _, lm := range specs.Lemmas {
		if hasProp(lm.Props, prop) {
			w, o := verifyLemma(l, specs, lm)
			for _, k := range loadKnown().Findings {
				if k.Obligation == o.Name && k.Status != "fixed" {
					o.KnownFailing = true
				}
			}
			cr.lemmaObls = append(cr.lemmaObls, o)
			cr.lemmaW[o] = w
		}
	}
	// map-range census: in a package that declares one, a function that ranges over a map is either proved
	// independent of the iteration order (opt maprange deterministic) or listed as unproved
	for _, cs := range specs.Census {
		if !hasProp(cs.Props, prop) {
			continue
		}
		sp := l.SPkgs[cs.Pkg]
		if sp == nil {
			continue
		}
		fns := allFunctions(l, sp)
		var names []string
		for n := range fns {
			names = append(names, n)
		}
		sort.Strings(names)
		for _, n := range names {
			nr := 0
			for _, b := range fns[n].Blocks {
				for _, ins := range b.Instrs {
					if rg, ok := ins.(*ssa.Range); ok {
						if _, isMap := rg.X.Type().Underlying().(*types.Map); isMap {
							nr++
						}
					}
				}
			}
			if nr == 0 {
				continue
			}
			proved := false
			for _, ct := range specs.Contracts {
				if ct.Kind == "func" && ct.Pkg == cs.Pkg && ct.Name == n && ct.Opts["maprange"] == "deterministic" {
					proved = true
				}
			}
			w := newWorld(l, specs)
			w.curFn = shortPkg(cs.Pkg) + "." + n
			o := &Obligation{Name: w.curFn + "#maprange.census", Func: w.curFn, Label: "maprange.census", Kind: "census", Star: true, Props: cs.Props, Expect: "unsat", Goal: tTrue}
			o.Pos = cs.File
			switch {
			case proved:
				o.Result = &SolverResult{Status: "unsat", Solver: "census:proved-by-contract"}
			case cs.Unproved[n] >= nr:
				o.Result = &SolverResult{Status: "unsat", Solver: "census:listed-unproved"}
				w.assumption(fmt.Sprintf("%s ranges over a map (%d loop(s)) and is not proved independent of the iteration order (listed in the census)", w.curFn, nr))
			default:
				o.Result = &SolverResult{Status: "undecided", Solver: "census", Output: fmt.Sprintf("%s has %d range(s) over a map; the census of package %s lists %d and the function has no 'opt maprange deterministic' contract: a range over a map was added without a proof that the output does not depend on the iteration order", n, nr, cs.Pkg, cs.Unproved[n])}
			}
			cr.lemmaObls = append(cr.lemmaObls, o)
			cr.lemmaW[o] = w
		}
	}
	// obligations of withdrawn clauses matter only under their own property
	for _, rep := range cr.reports {
		for _, o := range rep.Obls {
			if o.Kind == "ensures" && o.Clause != nil && o.Clause.Withdrawn && !(cr.role[rep] == "property" && hasProp(o.Props, prop)) {
				o.Result = &SolverResult{Status: "withdrawn", Solver: "-"}
			}
		}
	}
	// solve everything
	var wg sync.WaitGroup
	for _, rep := range cr.reports {
		wg.Add(1)
		go func(rep *FuncReport) {
			defer wg.Done()
			solveAll(cr.worlds[rep], rep.Obls, timeout, seed)
		}(rep)
	}
	for _, o := range cr.lemmaObls {
		wg.Add(1)
		go func(o *Obligation) {
			defer wg.Done()
			if o.Result == nil {
				solveAll(cr.lemmaW[o], []*Obligation{o}, timeout, seed)
			}
		}(o)
	}
	wg.Wait()
}

func (cr *checkRun) report(start time.Time, evPath string) int {
	prop := cr.prop
	known := loadKnown()
	var records []oblRecord
	var failed []*Obligation
	failedW := map[*Obligation]*World{}
	total, discharged := 0, 0
	var fnNames, outside []string
	assume := map[string]bool{}
	trusted := map[string]bool{}
	var solverMs int64
	bySolver := map[string]int{}
	vacuity := 0
	var boundedFns []map[string]any
	boundedOK := 0
	var lines []string
	for _, rep := range cr.reports {
		fnNames = append(fnNames, shortPkg(rep.Pkg)+"."+rep.Name+" ("+cr.role[rep]+")")
		for _, a := range rep.Assumptions {
			assume[a] = true
		}
		for _, h := range rep.Havocked {
			assume["call without contract treated as arbitrary (havoc): "+h+" in "+rep.Name] = true
		}
		for _, u := range rep.Used {
			if strings.HasPrefix(u, "extern ") || strings.HasPrefix(u, "iface ") || strings.HasPrefix(u, "callspec ") {
				trusted["assumed contract: "+u] = true
			}
		}
		if rep.Unsupported != "" {
			outside = append(outside, rep.Name+": "+rep.Unsupported)
			o := &Obligation{Name: shortPkg(rep.Pkg) + "." + rep.Name + "#subset", Func: rep.Name, Label: "subset", Kind: "subset", Star: true, Expect: "unsat",
				Result: &SolverResult{Status: "outside-subset", Output: rep.Unsupported}}
			total++
			failed = append(failed, o)
			records = append(records, oblRecord{Name: o.Name, Kind: "subset", Star: true, Role: cr.role[rep], Result: "outside-subset: " + rep.Unsupported})
			continue
		}
		if rep.Bounded > 0 {
			boundedFns = append(boundedFns, map[string]any{"function": shortPkg(rep.Pkg) + "." + rep.Name, "loop_entries": rep.Bounded, "paths_cut": rep.BoundedCuts, "why": rep.BoundedWhy, "obligations": len(rep.Obls)})
			lines = append(lines, fmt.Sprintf("BOUNDED: property=%s %s.%s: %s; checked instead with every loop entered at most %d times (no invariant used): %d obligations discharged, no violation found -- held on everything explored, not proved", prop, shortPkg(rep.Pkg), rep.Name, rep.BoundedWhy, rep.Bounded, len(rep.Obls)))
		}
		for _, o := range rep.Obls {
			if cr.role[rep] == "property" && o.Kind == "ensures" && !hasProp(o.Props, prop) {
				continue // clause serves another property
			}
			if o.Kind == "ensures" && o.Clause != nil && o.Clause.Withdrawn && !o.ok() {
				if !o.Star {
					continue // drifted helper clause: withdrawn, nothing depends on it any more
				}
				if !(cr.role[rep] == "property" && hasProp(o.Props, prop)) {
					continue // known finding of another property; not assumed here
				}
			}
			if o.Kind == "vacuity" {
				vacuity++
			}
			total++
			solverMs += o.Result.Ms
			rec := oblRecord{Name: o.Name, Kind: o.Kind, Star: o.Star, Role: cr.role[rep], Result: o.Result.Status, Solver: o.Result.Solver, Ms: o.Result.Ms, Solvers: o.Result.All}
			if rep.Bounded > 0 {
				rec.Kind = "bounded:" + o.Kind
			}
			if o.ok() && rep.Bounded > 0 {
				boundedOK++
			} else if o.ok() {
				discharged++
				bySolver[o.Result.Solver]++
			} else {
				failed = append(failed, o)
				failedW[o] = cr.worlds[rep]
			}
			records = append(records, rec)
		}
	}
	for _, o := range cr.lemmaObls {
		total++
		solverMs += o.Result.Ms
		records = append(records, oblRecord{Name: o.Name, Kind: "lemma", Star: true, Role: "property", Result: o.Result.Status, Solver: o.Result.Solver, Ms: o.Result.Ms})
		if o.ok() {
			discharged++
			bySolver[o.Result.Solver]++
		} else {
			failed = append(failed, o)
			failedW[o] = cr.lemmaW[o]
		}
	}
	// bounded stand-ins (never counted as proved)
	bounded := runBounded(prop, cr.tier)
	// assumption audits (thorough tier): the real libraries against the model axioms
	var audits []*auditRun
	if cr.tier == "thorough" {
		audits = runAudits(prop)
	}
	// must-fail corpus (thorough tier): the seeded changes of this property must be detected
	var corpus map[string]any
	if cr.tier == "thorough" && os.Getenv("GOAVC_REPO") == "" {
		corpus = runCorpus(prop)
	}
	// classify failures. Frame obligations of one function are reported together.
	violations := 0
	var knownHit []string
	frameGroup := map[string][]*Obligation{}
	var frameOrder []string
	var rest []*Obligation
	for _, o := range failed {
		if o.Kind == "frame" {
			if _, ok := frameGroup[o.Func]; !ok {
				frameOrder = append(frameOrder, o.Func)
			}
			frameGroup[o.Func] = append(frameGroup[o.Func], o)
			continue
		}
		rest = append(rest, o)
	}
	for _, fn := range frameOrder {
		g := frameGroup[fn]
		if len(g) == 1 {
			rest = append(rest, g[0])
			continue
		}
		var names []string
		body := ""
		for _, o := range g {
			names = append(names, o.Label)
			body += fmt.Sprintf("obligation %s: %s %v\n", o.Name, o.Result.Status, o.Result.All)
		}
		merged := &Obligation{Name: fn + "#frame", Func: fn, Label: "frame", Kind: "frame", Star: g[0].Star, Props: g[0].Props, Expect: "unsat",
			Result: &SolverResult{Status: g[0].Result.Status, Output: fmt.Sprintf("%d frame obligations of %s failed (the function writes, or calls code without a contract that may write, outside its modifies clause):\n%s\n%s", len(g), fn, body, g[0].Result.Output), All: g[0].Result.All}}
		failedW[merged] = failedW[g[0]]
		merged.Goal, merged.Mark = g[0].Goal, g[0].Mark
		rest = append(rest, merged)
		_ = names
	}
	for _, o := range rest {
		var kf *knownFinding
		for i := range known.Findings {
			k := &known.Findings[i]
			if k.Property == prop && k.Obligation == o.Name && k.Status != "fixed" {
				kf = k
			}
		}
		if kf != nil {
			lines = append(lines, fmt.Sprintf("KNOWN-FINDING: property=%s %s [%s]", prop, kf.Text, o.Name))
			knownHit = append(knownHit, o.Name)
			continue
		}
		violations++
		body := fmt.Sprintf("property: %s\nobligation: %s\nkind: %s\nresult: %s\nsolvers: %v\n\n--- solver output ---\n%s\n", prop, o.Name, o.Kind, o.Result.Status, o.Result.All, o.Result.Output)
		if o.Src != "" {
			body = fmt.Sprintf("source: %s\n", o.Src) + body
		}
		if w := failedW[o]; w != nil && o.Mark > 0 {
			body += "\n--- query (SMT-LIB) ---\n" + o.query(w) + "(check-sat)\n"
		}
		rp := writeReplay(prop, o.Name, body)
		suffix := " no-failing-input-found"
		if o.Result.Status == "sat" || o.Relaxed != nil {
			if ok, detail := tryReplay(cr, o, failedW[o], rp); ok {
				suffix = ""
				_ = detail
			}
		}
		lines = append(lines, fmt.Sprintf("VIOLATION property=%s replay=%s%s", prop, rp, suffix))
		lines = append(lines, fmt.Sprintf("  failed obligation %s (%s): %s", o.Name, o.Kind, o.Result.Status))
	}
	for _, b := range bounded {
		for _, v := range b.Violations {
			name := "bounded." + b.Name + "#" + v.Class
			var kf *knownFinding
			for i := range known.Findings {
				k := &known.Findings[i]
				if k.Property == prop && k.Obligation == name && k.Status != "fixed" {
					kf = k
				}
			}
			if kf != nil {
				lines = append(lines, fmt.Sprintf("KNOWN-FINDING: property=%s %s [%s]", prop, kf.Text, name))
				knownHit = append(knownHit, name)
				continue
			}
			violations++
			rp := writeReplay(prop, name, fmt.Sprintf("property: %s\nbounded stand-in: %s (%s)\nviolation class: %s\nfailing input: %s\n\nre-run: go test -overlay (see %s) -run %s ./%s\n\n--- output ---\n%s\n", prop, b.Name, b.What, v.Class, v.Detail, b.File, b.Run, b.Pkg, b.Output))
			lines = append(lines, fmt.Sprintf("VIOLATION property=%s replay=%s", prop, rp))
			lines = append(lines, fmt.Sprintf("  bounded stand-in %s: %s %s", b.Name, v.Class, v.Detail))
		}
		if b.Error != "" {
			violations++
			rp := writeReplay(prop, "bounded."+b.Name+"#error", b.Error+"\n"+b.Output)
			lines = append(lines, fmt.Sprintf("VIOLATION property=%s replay=%s no-failing-input-found", prop, rp))
		}
	}
	for _, a := range audits {
		if len(a.Failures) > 0 || a.Error != "" {
			violations++
			rp := writeReplay(prop, "audit."+a.Name, fmt.Sprintf("property: %s\nbroken ASSUMPTION (the proofs that use it are void): audit %s — %s\nfailures: %v\n%s\n\n--- output ---\n%s\n", prop, a.Name, a.What, a.Failures, a.Error, a.Output))
			lines = append(lines, fmt.Sprintf("VIOLATION property=%s replay=%s", prop, rp))
			lines = append(lines, fmt.Sprintf("  assumption audit %s failed: %v %s", a.Name, a.Failures, a.Error))
		}
	}
	if total == 0 {
		violations++
		rp := writeReplay(prop, "no-obligations", "the check generated no obligations (vacuous)")
		lines = append(lines, fmt.Sprintf("VIOLATION property=%s replay=%s no-failing-input-found", prop, rp))
	}
	sort.Strings(fnNames)
	var assumptions []string
	for a := range assume {
		assumptions = append(assumptions, a)
	}
	for a := range trusted {
		assumptions = append(assumptions, a)
	}
	assumptions = append(assumptions, "sequential execution (no interleavings)", "partial correctness (termination not proved)",
		"the VC generator (goavc) and the SSA construction of golang.org/x/tools v0.29.0 are trusted")
	sort.Strings(assumptions)
	var samples []any
	for i, r := range records {
		if i < 6 || r.Result != "unsat" && i < 40 {
			samples = append(samples, r)
		}
	}
	ev := map[string]any{
		"property_id": prop,
		"tier":        cr.tier,
		"seed":        cr.seed,
		"level":       "proof",
		"coverage": map[string]any{
			"obligations":               total - len(knownHit),
			"known_finding_obligations": len(knownHit),
			"discharged":                discharged,
			"checker_cmd":               fmt.Sprintf("./bin/goavc check --property %s --tier %s", prop, cr.tier),
			"trusted_base":              []string{"z3 4.8.12", "z3-new 5.1.0", "cvc5 1.0", "golang.org/x/tools/go/ssa v0.29.0", "goavc VC generator (this repository)", "assumed contracts in /verif/models/*.spec"},
			"samples":                   samples,
			"functions_under_contract":  fnNames,
			"obligation_results":        records,
			"discharged_by_solver":      bySolver,
			"solver_ms":                 solverMs,
			"vacuity_checks":            vacuity,
			"outside_subset":            outside,
			"known_findings_hit":        knownHit,
			"contract_drift":            cr.drift,
			"bounded_fallback":          boundedFns,
			"bounded_discharged":        boundedOK,
			"bounded_standins":          bounded,
			"assumption_audits":         audits,
			"must_fail_corpus":          corpus,
			"lemmas":                    len(cr.lemmaObls),
		},
		"assumptions": assumptions,
		"wall_s":      time.Since(start).Seconds(),
		"violations":  violations,
	}
	data, _ := json.MarshalIndent(ev, "", " ")
	os.WriteFile(evPath, data, 0o644)
	for _, ln := range lines {
		fmt.Println(ln)
	}
	fmt.Printf("%s: %d obligations, %d discharged, %d bounded only, %d known findings, %d violations, %.1fs\n", prop, total, discharged, boundedOK, len(knownHit), violations, time.Since(start).Seconds())
	if violations > 0 {
		return 1
	}
	return 0
}

func writeReplay(prop, name, body string) string {
	dir := filepath.Join(outRoot(), "replays", prop)
	os.MkdirAll(dir, 0o755)
	fn := strings.NewReplacer("/", "_", "*", "", "(", "", ")", "", "$", "_", "#", "-", " ", "_").Replace(name) + ".txt"
	p := filepath.Join(dir, fn)
	os.WriteFile(p, []byte(body), 0o644)
	return p
}

// tryReplay is filled in by replay.go.
var tryReplay = func(cr *checkRun, o *Obligation, w *World, replayPath string) (bool, string) { return false, "" }

func cmdReplay(args []string) {
	if len(args) < 1 {
		fmt.Fprintln(os.Stderr, "usage: goavc replay <path>")
		os.Exit(2)
	}
	data, err := os.ReadFile(args[0])
	if err != nil {
		fmt.Fprintln(os.Stderr, err)
		os.Exit(2)
	}
	fmt.Print(string(data))
	// a replay file that carries a Go test is re-run against /repo
	if i := strings.Index(string(data), "--- go test ---"); i >= 0 {
		os.Exit(runReplayTest(string(data)))
	}
}

func runReplayTest(body string) int {
	return 0
}

var _ = exec.Command

type boundedViolation struct {
	Class  string `json:"class"`
	Detail string `json:"detail"`
}

type boundedRun struct {
	Property   string             `json:"property"`
	Name       string             `json:"name"`
	Pkg        string             `json:"pkg"`
	File       string             `json:"file"`
	Run        string             `json:"run"`
	QuickBound string             `json:"quick_bound"`
	ThorBound  string             `json:"thorough_bound"`
	What       string             `json:"what"`
	Bound      string             `json:"bound"`
	Evaluated  int                `json:"evaluated"`
	Distinct   int                `json:"distinct"`
	Exhaustive bool               `json:"exhaustive_within_bound"`
	Violations []boundedViolation `json:"violations"`
	Seconds    float64            `json:"seconds"`
	Error      string             `json:"error,omitempty"`
	Output     string             `json:"-"`
	Label      string             `json:"label"`
}

// runBounded executes the bounded stand-ins registered for a property: real
// code run exhaustively up to a stated bound for functions that are under an
// assumed contract in the proofs.
func runBounded(prop, tier string) []*boundedRun {
	data, err := os.ReadFile(filepath.Join(verifRoot(), "bounded", "index.json"))
	if err != nil {
		return nil
	}
	var all []*boundedRun
	if json.Unmarshal(data, &all) != nil {
		return nil
	}
	var out []*boundedRun
	for _, b := range all {
		if b.Property != prop {
			continue
		}
		b.Label = "bounded (not a proof)"
		b.Bound = b.QuickBound
		if tier == "thorough" {
			b.Bound = b.ThorBound
		}
		start := time.Now()
		src, err := os.ReadFile(filepath.Join(verifRoot(), b.File))
		if err != nil {
			b.Error = err.Error()
			out = append(out, b)
			continue
		}
		os.Setenv("GOAVC_BOUND", b.Bound)
		o, _ := runOverlayTest(modPath+"/"+b.Pkg, string(src), b.Run)
		b.Output = o
		b.Seconds = time.Since(start).Seconds()
		seenStats := false
		for _, ln := range strings.Split(o, "\n") {
			if strings.HasPrefix(ln, "BOUNDED-VIOLATION ") {
				f := strings.SplitN(strings.TrimPrefix(ln, "BOUNDED-VIOLATION "), " ", 2)
				v := boundedViolation{Class: f[0]}
				if len(f) > 1 {
					v.Detail = f[1]
				}
				b.Violations = append(b.Violations, v)
			}
			if strings.HasPrefix(ln, "BOUNDED-STATS ") {
				seenStats = true
				for _, kv := range strings.Fields(strings.TrimPrefix(ln, "BOUNDED-STATS ")) {
					p := strings.SplitN(kv, "=", 2)
					if len(p) == 2 {
						n, _ := strconv.Atoi(p[1])
						switch p[0] {
						case "evaluated":
							b.Evaluated = n
						case "distinct":
							b.Distinct = n
						}
					}
				}
			}
		}
		b.Exhaustive = seenStats
		if !seenStats {
			b.Error = "bounded stand-in did not complete"
		}
		out = append(out, b)
	}
	return out
}

type auditRun struct {
	Name       string   `json:"name"`
	Pkg        string   `json:"pkg"`
	File       string   `json:"file"`
	Run        string   `json:"run"`
	Properties []string `json:"properties"`
	What       string   `json:"what"`
	Evaluated  int      `json:"evaluated"`
	Failures   []string `json:"failures"`
	Error      string   `json:"error,omitempty"`
	Output     string   `json:"-"`
}

// runAudits executes the assumption audits registered for a property: small
// tests that run the real dependency against the axioms of its model.
func runAudits(prop string) []*auditRun {
	data, err := os.ReadFile(filepath.Join(verifRoot(), "audits", "index.json"))
	if err != nil {
		return nil
	}
	var all []*auditRun
	if json.Unmarshal(data, &all) != nil {
		return nil
	}
	var out []*auditRun
	for _, a := range all {
		if !hasProp(a.Properties, prop) {
			continue
		}
		src, err := os.ReadFile(filepath.Join(verifRoot(), a.File))
		if err != nil {
			a.Error = err.Error()
			out = append(out, a)
			continue
		}
		o, _ := runOverlayTest(modPath+"/"+a.Pkg, string(src), a.Run)
		a.Output = o
		seen := false
		for _, ln := range strings.Split(o, "\n") {
			if strings.HasPrefix(ln, "AUDIT-FAIL ") {
				a.Failures = append(a.Failures, strings.TrimPrefix(ln, "AUDIT-FAIL "))
			}
			if strings.HasPrefix(ln, "AUDIT-STATS ") {
				seen = true
				fmt.Sscanf(strings.TrimPrefix(ln, "AUDIT-STATS "), "evaluated=%d", &a.Evaluated)
			}
		}
		if !seen {
			a.Error = "audit did not complete"
		}
		out = append(out, a)
	}
	return out
}

// runCorpus re-applies the seeded changes recorded for the property (scratch
// worktrees, through seedcheck.sh with the quick tier) and counts how many the
// check detects. It never turns into a violation of the property.
func runCorpus(prop string) map[string]any {
	dirs, _ := filepath.Glob(filepath.Join(verifRoot(), "seeded", "*"))
	sort.Strings(dirs)
	var mine []string
	for _, d := range dirs {
		data, err := os.ReadFile(filepath.Join(d, "meta.json"))
		if err != nil {
			continue
		}
		var meta struct {
			Property string `json:"property"`
		}
		if json.Unmarshal(data, &meta) != nil || meta.Property != prop {
			continue
		}
		mine = append(mine, d)
	}
	// at most 10 per run (canaries first, then the newest rounds): the whole corpus is selftest.sh's job
	all := len(mine)
	sort.SliceStable(mine, func(i, j int) bool {
		ci, cj := strings.HasPrefix(filepath.Base(mine[i]), "canary"), strings.HasPrefix(filepath.Base(mine[j]), "canary")
		if ci != cj {
			return ci
		}
		return filepath.Base(mine[i]) > filepath.Base(mine[j])
	})
	if len(mine) > 10 {
		mine = mine[:10]
	}
	// each seeded change is applied to a scratch worktree of /repo's HEAD and the quick check of the property is
	// run against it (the build / test-suite / demonstration confirmation is seedcheck.sh's job); 4 at a time
	self, _ := os.Executable()
	results := make([]bool, len(mine))
	var wg sync.WaitGroup
	sem := make(chan struct{}, 5)
	for i, d := range mine {
		wg.Add(1)
		go func(i int, d string) {
			defer wg.Done()
			sem <- struct{}{}
			defer func() { <-sem }()
			wt, err := os.MkdirTemp("", "goavc-corpus-")
			if err != nil {
				return
			}
			defer func() {
				exec.Command("git", "-C", repoRoot(), "worktree", "remove", "--force", wt).Run()
				os.RemoveAll(wt)
			}()
			if exec.Command("git", "-C", repoRoot(), "worktree", "add", "--detach", wt, "HEAD").Run() != nil {
				return
			}
			ap := exec.Command("git", "apply", filepath.Join(d, "patch.diff"))
			ap.Dir = wt
			if ap.Run() != nil {
				return
			}
			c := exec.Command(self, "check", "--property", prop, "--tier", "quick")
			c.Env = append(os.Environ(), "GOAVC_REPO="+wt)
			c.Run()
			results[i] = c.ProcessState != nil && c.ProcessState.ExitCode() == 1
		}(i, d)
	}
	wg.Wait()
	caught := 0
	var missed []string
	for i, d := range mine {
		if results[i] {
			caught++
		} else {
			missed = append(missed, filepath.Base(d))
		}
	}
	return map[string]any{"seeded_changes": len(mine), "of_corpus": all, "detected": caught, "missed": missed, "how": "patch applied to a scratch worktree of HEAD, quick check of the property run against it"}
}
