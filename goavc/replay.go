package main

import (
	"bytes"
	"encoding/json"
	"fmt"
	"go/types"
	"os"
	"os/exec"
	"path/filepath"
	"strconv"
	"strings"

	"golang.org/x/tools/go/ssa"
)

// replayPlan describes how a counterexample of a function-level obligation
// is turned into a concrete call of the real function.
type replayPlan struct {
	fn      *ssa.Function
	pkgPath string
	pkgDir  string
	pkgName string
	// value requests: name -> SMT term
	req   map[string]string
	order []string
	// how to build each argument / compare each result
	params  []replayParam
	results []replayResult
}

type replayParam struct {
	name string
	typ  types.Type
	kind string // basic | structptr | error | ctx | unsupported
	flds []replayField
}

type replayField struct {
	name string
	typ  types.Type
	key  string // request key
}

type replayResult struct {
	typ  types.Type
	kind string
	flds []replayField
	key  string
}

func basicKind(t types.Type) bool {
	b, ok := t.Underlying().(*types.Basic)
	return ok && b.Info()&(types.IsBoolean|types.IsInteger|types.IsString) != 0
}

func structPtr(t types.Type) (types.Type, *types.Struct, bool) {
	p, ok := t.Underlying().(*types.Pointer)
	if !ok {
		return nil, nil, false
	}
	st, ok := p.Elem().Underlying().(*types.Struct)
	return p.Elem(), st, ok
}

func isErrorType(t types.Type) bool {
	return types.Identical(t, types.Universe.Lookup("error").Type())
}

// planReplay prepares value requests for an ensures obligation of the top
// function. Returns nil when the inputs cannot be concretised generically.
func (w *World) planReplay(fr *Frame, exit *State, res []*Val) *replayPlan {
	fn := fr.fn
	if fn.Parent() != nil || fn.Pkg == nil {
		return nil
	}
	pl := &replayPlan{fn: fn, pkgPath: fn.Pkg.Pkg.Path(), pkgName: fn.Pkg.Pkg.Name(), req: map[string]string{}}
	add := func(k, term string) {
		if _, ok := pl.req[k]; !ok {
			pl.req[k] = term
			pl.order = append(pl.order, k)
		}
	}
	entry := fr.entry
	for _, p := range fn.Params {
		rp := replayParam{name: p.Name(), typ: p.Type()}
		v := fr.vals[p]
		switch {
		case basicKind(p.Type()):
			rp.kind = "basic"
			add("in."+p.Name(), v.T.S)
		case isErrorType(p.Type()):
			rp.kind = "error"
			add("in."+p.Name()+".tag", itag(v.T).S)
			add("in."+p.Name()+".val", ival(v.T).S)
			if _, ok := w.specs.Fns["errMsg"]; ok && w.preSeen["(declare-fun errMsg (Iface) String)"] {
				add("in."+p.Name()+".msg", mk(SString, "errMsg", v.T).S)
			}
			// fields of a *goa.ServiceError payload
			if se := w.serviceErrorType(); se != nil {
				stt := se.Underlying().(*types.Struct)
				for i := 0; i < stt.NumFields(); i++ {
					if basicKind(stt.Field(i).Type()) {
						k := "in." + p.Name() + "." + stt.Field(i).Name()
						add(k, sel(w.hget(entry, w.fieldKey(se, i)), ival(v.T)).S)
						rp.flds = append(rp.flds, replayField{stt.Field(i).Name(), stt.Field(i).Type(), k})
					}
				}
			}
		case strings.HasSuffix(p.Type().String(), "context.Context"):
			rp.kind = "ctx"
		default:
			if et, stt, ok := structPtr(p.Type()); ok {
				rp.kind = "structptr"
				add("in."+p.Name(), v.T.S)
				for i := 0; i < stt.NumFields(); i++ {
					if basicKind(stt.Field(i).Type()) {
						k := "in." + p.Name() + "." + stt.Field(i).Name()
						add(k, sel(w.hget(entry, w.fieldKey(et, i)), v.T).S)
						rp.flds = append(rp.flds, replayField{stt.Field(i).Name(), stt.Field(i).Type(), k})
					}
				}
			} else {
				return nil
			}
		}
		pl.params = append(pl.params, rp)
	}
	for i, r := range res {
		rr := replayResult{typ: r.Typ, key: fmt.Sprintf("out%d", i)}
		switch {
		case basicKind(r.Typ):
			rr.kind = "basic"
			add(rr.key, r.T.S)
		case r.T.Sort == SIface:
			rr.kind = "iface"
			add(rr.key+".tag", itag(r.T).S)
			add(rr.key+".val", ival(r.T).S)
			for _, t := range w.tagTypes {
				if et, stt, ok := structPtr(t); ok {
					for fi := 0; fi < stt.NumFields(); fi++ {
						if basicKind(stt.Field(fi).Type()) {
							k := fmt.Sprintf("%s.%d.%s", rr.key, w.tags[types.TypeString(types.Unalias(t), nil)], stt.Field(fi).Name())
							add(k, sel(w.hget(exit, w.fieldKey(et, fi)), ival(r.T)).S)
						}
					}
				}
			}
		default:
			if et, stt, ok := structPtr(r.Typ); ok {
				rr.kind = "structptr"
				add(rr.key, r.T.S)
				for fi := 0; fi < stt.NumFields(); fi++ {
					if basicKind(stt.Field(fi).Type()) {
						k := rr.key + "." + stt.Field(fi).Name()
						add(k, sel(w.hget(exit, w.fieldKey(et, fi)), r.T).S)
						rr.flds = append(rr.flds, replayField{stt.Field(fi).Name(), stt.Field(fi).Type(), k})
					}
				}
			} else {
				rr.kind = "opaque"
			}
		}
		pl.results = append(pl.results, rr)
	}
	return pl
}

func (w *World) serviceErrorType() types.Type {
	p := w.l.All[modPath+"/pkg"]
	if p == nil || p.Types == nil {
		return nil
	}
	o := p.Types.Scope().Lookup("ServiceError")
	if o == nil {
		return nil
	}
	return o.Type()
}

// parseValues reads the answer to (get-value ...): a list of (term value).
func parseValues(out string, n int) []string {
	i := strings.Index(out, "(")
	if i < 0 {
		return nil
	}
	sx, err := parseSexps(out[i:])
	if err != nil || len(sx) == 0 {
		return nil
	}
	var vals []string
	for _, pair := range sx[0].list {
		if len(pair.list) == 2 {
			vals = append(vals, pair.list[1].String())
		}
	}
	if len(vals) != n {
		return nil
	}
	return vals
}

func smtInt(s string) (int64, bool) {
	s = strings.TrimSpace(s)
	if strings.HasPrefix(s, "(-") {
		s = strings.TrimSpace(strings.TrimSuffix(strings.TrimPrefix(s, "(-"), ")"))
		n, err := strconv.ParseInt(s, 10, 64)
		return -n, err == nil
	}
	n, err := strconv.ParseInt(s, 10, 64)
	return n, err == nil
}

// smtString decodes an SMT-LIB string literal.
func smtString(s string) (string, bool) {
	if len(s) < 2 || s[0] != '"' {
		return "", false
	}
	s = s[1 : len(s)-1]
	s = strings.ReplaceAll(s, `""`, `"`)
	var b bytes.Buffer
	for i := 0; i < len(s); i++ {
		if strings.HasPrefix(s[i:], `\u{`) {
			j := strings.Index(s[i:], "}")
			if j > 0 {
				n, err := strconv.ParseInt(s[i+3:i+j], 16, 32)
				if err == nil {
					if n < 256 {
						b.WriteByte(byte(n))
					} else {
						b.WriteRune(rune(n))
					}
					i += j
					continue
				}
			}
		}
		if strings.HasPrefix(s[i:], `\x`) && i+3 < len(s) {
			n, err := strconv.ParseInt(s[i+2:i+4], 16, 32)
			if err == nil {
				b.WriteByte(byte(n))
				i += 3
				continue
			}
		}
		b.WriteByte(s[i])
	}
	return b.String(), true
}

func goLiteral(t types.Type, smt string) (string, bool) {
	b := t.Underlying().(*types.Basic)
	tn := types.TypeString(t, func(p *types.Package) string { return p.Name() })
	switch {
	case b.Info()&types.IsBoolean != 0:
		return fmt.Sprintf("%s(%s)", tn, smt), smt == "true" || smt == "false"
	case b.Info()&types.IsString != 0:
		s, ok := smtString(smt)
		return fmt.Sprintf("%s(%q)", tn, s), ok
	case b.Info()&types.IsInteger != 0:
		n, ok := smtInt(smt)
		return fmt.Sprintf("%s(%d)", tn, n), ok
	}
	return "", false
}

// render builds the Go test that runs the real function on the model's
// inputs and prints what it returned.
func (pl *replayPlan) render(vals map[string]string, w *World) (string, map[string]string, bool) {
	var b strings.Builder
	qual := func(p *types.Package) string {
		if p.Path() == pl.pkgPath {
			return ""
		}
		return p.Name()
	}
	imports := map[string]bool{"testing": true, "fmt": true}
	fmt.Fprintf(&b, "func TestGoavcReplay(t *testing.T) {\n")
	var args []string
	for _, p := range pl.params {
		switch p.kind {
		case "basic":
			lit, ok := goLiteral(p.typ, vals["in."+p.name])
			if !ok {
				return "", nil, false
			}
			lit = strings.ReplaceAll(lit, pl.pkgName+".", "")
			fmt.Fprintf(&b, "\tvar a_%s %s = %s\n", p.name, types.TypeString(p.typ, qual), lit)
		case "ctx":
			imports["context"] = true
			fmt.Fprintf(&b, "\ta_%s := context.Background()\n", p.name)
		case "structptr":
			n, _ := smtInt(vals["in."+p.name])
			et, _, _ := structPtr(p.typ)
			if n == 0 {
				fmt.Fprintf(&b, "\tvar a_%s %s\n", p.name, types.TypeString(p.typ, qual))
				break
			}
			fmt.Fprintf(&b, "\ta_%s := &%s{}\n", p.name, types.TypeString(et, qual))
			for _, f := range p.flds {
				lit, ok := goLiteral(f.typ, vals[f.key])
				if !ok {
					return "", nil, false
				}
				fmt.Fprintf(&b, "\ta_%s.%s = %s\n", p.name, f.name, strings.ReplaceAll(lit, pl.pkgName+".", ""))
			}
		case "error":
			tag, _ := smtInt(vals["in."+p.name+".tag"])
			fmt.Fprintf(&b, "\tvar a_%s error\n", p.name)
			if tag == 0 {
				break
			}
			se := w.serviceErrorType()
			if se != nil && tag == int64(w.tags[types.TypeString(types.NewPointer(se), nil)]) {
				goaq := "goa."
				if pl.pkgPath == modPath+"/pkg" {
					goaq = ""
				} else {
					imports["goa "+strconv.Quote(modPath+"/pkg")] = true
				}
				fmt.Fprintf(&b, "\t{\n\t\tse := &%sServiceError{}\n", goaq)
				for _, f := range p.flds {
					if !isExported(f.name) && goaq != "" {
						continue
					}
					lit, ok := goLiteral(f.typ, vals[f.key])
					if !ok {
						return "", nil, false
					}
					fmt.Fprintf(&b, "\t\tse.%s = %s\n", f.name, lit)
				}
				fmt.Fprintf(&b, "\t\ta_%s = se\n\t}\n", p.name)
			} else {
				imports["errors"] = true
				msg := "x"
				if m, ok := vals["in."+p.name+".msg"]; ok {
					if s, ok2 := smtString(m); ok2 {
						msg = s
					}
				}
				fmt.Fprintf(&b, "\ta_%s = errors.New(%q)\n", p.name, msg)
			}
		default:
			return "", nil, false
		}
		args = append(args, "a_"+p.name)
	}
	// the call
	var call string
	if pl.fn.Signature.Recv() != nil {
		call = fmt.Sprintf("%s.%s(%s)", args[0], pl.fn.Name(), strings.Join(args[1:], ", "))
	} else {
		call = fmt.Sprintf("%s(%s)", pl.fn.Name(), strings.Join(args, ", "))
	}
	var outs []string
	for i := range pl.results {
		outs = append(outs, fmt.Sprintf("r%d", i))
	}
	if len(outs) > 0 {
		fmt.Fprintf(&b, "\t%s := %s\n", strings.Join(outs, ", "), call)
	} else {
		fmt.Fprintf(&b, "\t%s\n", call)
	}
	expected := map[string]string{}
	for i, r := range pl.results {
		switch r.kind {
		case "basic":
			fmt.Fprintf(&b, "\tfmt.Printf(\"GOAVC out%d=%%#v\\n\", r%d)\n", i, i)
			lit, ok := goLiteral(types.Default(r.typ.Underlying()), vals[r.key])
			if !ok {
				return "", nil, false
			}
			expected[fmt.Sprintf("out%d", i)] = lit
		case "structptr":
			for _, f := range r.flds {
				fmt.Fprintf(&b, "\tif r%d != nil { fmt.Printf(\"GOAVC out%d.%s=%%#v\\n\", r%d.%s) }\n", i, i, f.name, i, f.name)
				lit, ok := goLiteral(types.Default(f.typ.Underlying()), vals[f.key])
				if ok {
					expected[fmt.Sprintf("out%d.%s", i, f.name)] = lit
				}
			}
		case "iface":
			fmt.Fprintf(&b, "\tfmt.Printf(\"GOAVC out%d.type=%%T\\n\", r%d)\n", i, i)
			imports["reflect"] = true
			fmt.Fprintf(&b, "\tif v := reflect.ValueOf(r%d); v.IsValid() && v.Kind() == reflect.Ptr && !v.IsNil() && v.Elem().Kind() == reflect.Struct {\n\t\tfor i := 0; i < v.Elem().NumField(); i++ {\n\t\t\tf := v.Elem().Field(i)\n\t\t\tswitch f.Kind() {\n\t\t\tcase reflect.String:\n\t\t\t\tfmt.Printf(\"GOAVC out%d.%%s=%%#v\\n\", v.Elem().Type().Field(i).Name, f.String())\n\t\t\tcase reflect.Bool:\n\t\t\t\tfmt.Printf(\"GOAVC out%d.%%s=%%#v\\n\", v.Elem().Type().Field(i).Name, f.Bool())\n\t\t\tcase reflect.Int, reflect.Int64:\n\t\t\t\tfmt.Printf(\"GOAVC out%d.%%s=%%#v\\n\", v.Elem().Type().Field(i).Name, f.Int())\n\t\t\t}\n\t\t}\n\t}\n", i, i, i, i)
			tag, _ := smtInt(vals[r.key+".tag"])
			if tag == 0 {
				expected[fmt.Sprintf("out%d.type", i)] = "<nil>"
			} else if int(tag) <= len(w.tagTypes) {
				t := w.tagTypes[tag-1]
				expected[fmt.Sprintf("out%d.type", i)] = types.TypeString(t, func(p *types.Package) string { return p.Name() })
				if _, stt, ok := structPtr(t); ok {
					for fi := 0; fi < stt.NumFields(); fi++ {
						k := fmt.Sprintf("%s.%d.%s", r.key, tag, stt.Field(fi).Name())
						if v, ok := vals[k]; ok {
							if lit, ok := goLiteral(types.Default(stt.Field(fi).Type().Underlying()), v); ok {
								expected[fmt.Sprintf("out%d.%s", i, stt.Field(fi).Name())] = lit
							}
						}
					}
				}
			}
		}
	}
	b.WriteString("}\n")
	var hdr strings.Builder
	fmt.Fprintf(&hdr, "package %s\n\nimport (\n", pl.pkgName)
	for im := range imports {
		if strings.Contains(im, " ") {
			fmt.Fprintf(&hdr, "\t%s\n", im)
		} else {
			fmt.Fprintf(&hdr, "\t%q\n", im)
		}
	}
	hdr.WriteString(")\n\n")
	return hdr.String() + b.String(), expected, true
}

func isExported(n string) bool { return n != "" && n[0] >= 'A' && n[0] <= 'Z' }

// runOverlayTest injects a test file into a package of the repository through
// go test -overlay (nothing is written to the repository) and returns its
// output.
func runOverlayTest(pkgPath, src, run string) (string, error) {
	dir := scratch()
	rel := strings.TrimPrefix(strings.TrimPrefix(pkgPath, modPath), "/")
	pkgDir := filepath.Join(repoRoot(), rel)
	testFile := filepath.Join(dir, "zz_goavc_replay_test.go")
	if err := os.WriteFile(testFile, []byte(src), 0o644); err != nil {
		return "", err
	}
	ov := map[string]map[string]string{"Replace": {filepath.Join(pkgDir, "zz_goavc_replay_test.go"): testFile}}
	ovData, _ := json.Marshal(ov)
	ovFile := filepath.Join(dir, "overlay.json")
	os.WriteFile(ovFile, ovData, 0o644)
	cmd := exec.Command("go", "test", "-overlay", ovFile, "-vet=off", "-count=1", "-timeout", "60s", "-run", run, "-v", ".")
	cmd.Dir = pkgDir
	cmd.Env = append(os.Environ(), "GOFLAGS=-mod=mod", "GOPROXY=off", "GOSUMDB=off", "GOTOOLCHAIN=local")
	out, err := cmd.CombinedOutput()
	return string(out), err
}

func init() {
	tryReplay = func(cr *checkRun, o *Obligation, w *World, replayPath string) (bool, string) {
		if w == nil || w.replay == nil || o.Kind != "ensures" {
			return false, ""
		}
		pl := w.replay
		// a clause about ghost state (or about globals the harness does not set up) is not decided by the
		// function's inputs and outputs: equal outputs would not show the violation
		if o.Clause != nil && w.topContract != nil {
			ghostly := false
			seen := map[string]bool{}
			var walk func(e *CExpr)
			walk = func(e *CExpr) {
				if e == nil {
					return
				}
				if e.Op == "id" {
					if _, isGhost := w.specs.Ghosts[e.Name]; isGhost {
						ghostly = true
					}
					if !seen[e.Name] {
						seen[e.Name] = true
						for _, ld := range w.topContract.Lets {
							if ld.Name == e.Name {
								walk(ld.Expr)
							}
						}
					}
				}
				for _, a := range e.Args {
					walk(a)
				}
			}
			walk(o.Clause.Expr)
			if ghostly || len(pl.fn.Params) == 0 {
				return false, "the violated clause speaks about state the replay harness cannot observe"
			}
		}
		src0 := o.Result.Output
		if o.Result.Status != "sat" && o.Relaxed != nil {
			src0 = o.Relaxed.Output
		}
		vals := parseValues(src0, len(o.Values))
		if vals == nil {
			return false, "no model values"
		}
		vm := map[string]string{}
		for i, k := range o.ValNames {
			vm[k] = vals[i]
		}
		src, expected, ok := pl.render(vm, w)
		if !ok {
			return false, "inputs could not be concretised"
		}
		out, _ := runOverlayTest(pl.pkgPath, src, "TestGoavcReplay")
		actual := map[string]string{}
		for _, ln := range strings.Split(out, "\n") {
			if strings.HasPrefix(ln, "GOAVC ") {
				kv := strings.SplitN(strings.TrimPrefix(ln, "GOAVC "), "=", 2)
				if len(kv) == 2 {
					actual[kv[0]] = kv[1]
				}
			}
		}
		match := len(expected) > 0
		var diff []string
		for k, e := range expected {
			a, has := actual[k]
			if !has || normLit(a) != normLit(e) {
				match = false
				diff = append(diff, fmt.Sprintf("%s: model predicts %s, real code gives %s", k, e, a))
			}
		}
		f, _ := os.OpenFile(replayPath, os.O_APPEND|os.O_WRONLY, 0o644)
		if f != nil {
			fmt.Fprintf(f, "\n--- go test ---\n// package %s\n%s\n--- model-predicted outputs ---\n%v\n--- outputs of the real code ---\n%v\n--- verdict ---\n", pl.pkgPath, src, expected, actual)
			if match {
				fmt.Fprintf(f, "REPRODUCED: the real function returns exactly the values of the counterexample, which violate %s\n", o.Name)
			} else {
				fmt.Fprintf(f, "NOT REPRODUCED: %s\n", strings.Join(diff, "; "))
			}
			f.Close()
		}
		return match, strings.Join(diff, "; ")
	}
}

// normLit normalises printed Go values for comparison: int(5) vs 5, string("x") vs "x".
func normLit(s string) string {
	s = strings.TrimSpace(s)
	if i := strings.Index(s, "("); i > 0 && strings.HasSuffix(s, ")") && !strings.HasPrefix(s, "\"") {
		s = s[i+1 : len(s)-1]
	}
	return s
}
