package main

import "go/types"

func typesPointer(t types.Type) types.Type { return types.NewPointer(t) }
