package main

import (
	"os"
	"strings"
)

// Query slicing. An obligation's query is the whole script up to the point where the obligation was
// generated. For long functions most of it is about heap versions that a later havoc disconnected from
// the goal. Dropping assumptions is always sound for a refutation query (fewer hypotheses), so the slicer
// keeps, besides every declaration/definition the kept text needs, only the assertions connected to the
// goal through shared data symbols. Path-condition and allocation-counter symbols (pc!, bc!, $alloc) do
// not propagate relevance: they occur everywhere.

type sliceEntry struct {
	array bool // declares / defines a heap version (array sort)
	text  string
	kind  int // 0 other (kept), 1 declare, 2 define, 3 assert
	name  string
	syms  []string
	multi bool
}

func isControlSym(s string) bool {
	return strings.HasPrefix(s, "pc!") || strings.HasPrefix(s, "bc!") || strings.HasPrefix(s, "$alloc") || strings.HasPrefix(s, "|$alloc")
}

// smtTokens returns the symbol-like tokens of an SMT-LIB text (quoted symbols keep their bars).
func smtTokens(s string) []string {
	var out []string
	i, n := 0, len(s)
	for i < n {
		c := s[i]
		switch {
		case c == ' ' || c == '\n' || c == '\t' || c == '(' || c == ')' || c == '\r':
			i++
		case c == '"':
			j := i + 1
			for j < n {
				if s[j] == '"' {
					if j+1 < n && s[j+1] == '"' {
						j += 2
						continue
					}
					break
				}
				j++
			}
			i = j + 1
		case c == '|':
			j := strings.IndexByte(s[i+1:], '|')
			if j < 0 {
				return out
			}
			out = append(out, s[i:i+j+2])
			i += j + 2
		case c == ';':
			j := strings.IndexByte(s[i:], '\n')
			if j < 0 {
				return out
			}
			i += j
		default:
			j := i
			for j < n && s[j] != ' ' && s[j] != '\n' && s[j] != '\t' && s[j] != '(' && s[j] != ')' {
				j++
			}
			out = append(out, s[i:j])
			i = j
		}
	}
	return out
}

func sliceLines(lines []string, seed string, forget int) []string {
	entries := make([]*sliceEntry, len(lines))
	names := map[string]bool{}
	for i, ln := range lines {
		e := &sliceEntry{text: ln}
		entries[i] = e
		t := strings.TrimSpace(ln)
		if strings.Count(t, "\n") > 0 {
			// several commands in one entry (prelude-like text): always kept
			e.multi = true
			for _, sub := range strings.Split(t, "\n") {
				sub = strings.TrimSpace(sub)
				if strings.HasPrefix(sub, "(declare-fun ") || strings.HasPrefix(sub, "(define-fun ") || strings.HasPrefix(sub, "(declare-const ") {
					if tk := smtTokens(sub); len(tk) > 1 {
						names[tk[1]] = true
					}
				}
			}
			continue
		}
		switch {
		case strings.HasPrefix(t, "(declare-fun ") || strings.HasPrefix(t, "(declare-const "):
			e.kind = 1
		case strings.HasPrefix(t, "(define-fun "):
			e.kind = 2
		case strings.HasPrefix(t, "(assert "):
			e.kind = 3
			if i < forget {
				e.kind = 4 // forgotten
			}
		}
		if e.kind == 1 || e.kind == 2 {
			if tk := smtTokens(t); len(tk) > 1 {
				e.name = tk[1]
				names[e.name] = true
				if i := strings.Index(t, " () "); i > 0 && strings.HasPrefix(t[i+4:], "(Array") {
					e.array = true
				}
			}
		}
	}
	for _, e := range entries {
		if e.kind == 0 && !e.multi {
			continue
		}
		seen := map[string]bool{}
		for _, tk := range smtTokens(e.text) {
			if names[tk] && !seen[tk] && tk != e.name {
				seen[tk] = true
				e.syms = append(e.syms, tk)
			}
		}
	}
	byName := map[string]*sliceEntry{}
	for _, e := range entries {
		if e.name != "" {
			byName[e.name] = e
		}
	}
	need := map[string]bool{} // must be declared / defined
	rel := map[string]bool{}  // data symbols connected to the goal
	var work []string
	addNeed := func(s string, relevant bool) {
		if relevant && !isControlSym(s) && !rel[s] {
			rel[s] = true
			work = append(work, s)
		}
		if !need[s] {
			need[s] = true
			work = append(work, s)
		}
	}
	for _, tk := range smtTokens(seed) {
		if names[tk] {
			addNeed(tk, true)
		}
	}
	for _, e := range entries {
		if e.multi || (e.kind == 0 && len(e.syms) > 0) {
			for _, s := range e.syms {
				addNeed(s, false)
			}
		}
	}
	// phase A: the heap versions connected to the goal (through frame axioms, stores, merges, contracts)
	isArr := func(s string) bool { d := byName[s]; return d != nil && d.array }
	relHeap := map[string]bool{}
	{
		// definitional cone of the seed
		cone := map[string]bool{}
		var st []string
		for _, tk := range smtTokens(seed) {
			if names[tk] && !cone[tk] {
				cone[tk] = true
				st = append(st, tk)
			}
		}
		for len(st) > 0 {
			x := st[len(st)-1]
			st = st[:len(st)-1]
			if d := byName[x]; d != nil && d.kind == 2 {
				for _, b := range d.syms {
					if !cone[b] {
						cone[b] = true
						st = append(st, b)
					}
				}
			}
		}
		for x := range cone {
			if isArr(x) {
				relHeap[x] = true
			}
		}
		for changed := true; changed; {
			changed = false
			for _, e := range entries {
				if e.kind != 2 && e.kind != 3 {
					continue
				}
				touches := e.kind == 2 && e.array && relHeap[e.name]
				var arrs []string
				for _, x := range e.syms {
					if isArr(x) {
						arrs = append(arrs, x)
						if relHeap[x] {
							touches = true
						}
					}
				}
				if e.kind == 2 && !e.array {
					// a scalar definition reads heaps but does not relate them
					continue
				}
				if !touches {
					continue
				}
				if e.kind == 2 && e.array && !relHeap[e.name] {
					// a version derived from a relevant one is relevant only if something relevant uses it
					continue
				}
				for _, x := range arrs {
					if !relHeap[x] {
						relHeap[x] = true
						changed = true
					}
				}
			}
		}
	}
	kept := map[*sliceEntry]bool{}
	for {
		for len(work) > 0 {
			s := work[len(work)-1]
			work = work[:len(work)-1]
			if d := byName[s]; d != nil && d.kind == 2 {
				for _, b := range d.syms {
					// the body of a data definition is as relevant as the symbol it defines
					addNeed(b, rel[s])
				}
			}
		}
		changed := false
		for _, e := range entries {
			if e.kind != 3 || kept[e] {
				continue
			}
			hit, data, stale := false, false, false
			for _, s := range e.syms {
				if !isControlSym(s) {
					data = true
					if rel[s] {
						hit = true
					} else if isArr(s) && !relHeap[s] {
						// talks about a heap version the goal is not connected to (e.g. the heap before a havoc)
						stale = true
					}
				}
			}
			if (hit && !stale) || !data {
				kept[e] = true
				changed = true
				for _, s := range e.syms {
					addNeed(s, true)
				}
				_ = stale
			}
		}
		if !changed && len(work) == 0 {
			break
		}
	}
	var out []string
	for _, e := range entries {
		switch e.kind {
		case 0:
			out = append(out, e.text)
		case 1, 2:
			if need[e.name] {
				out = append(out, e.text)
			}
		case 3:
			if kept[e] {
				out = append(out, e.text)
			}
		}
	}
	return out
}

func sliceThreshold() int {
	if os.Getenv("GOAVC_NOSLICE") != "" {
		return 1 << 40
	}
	return 150000
}
