package main

import (
	"fmt"
	"go/constant"
	"go/token"
	"go/types"
	"sort"
	"strings"

	"golang.org/x/tools/go/ssa"
)

// CEnv is the environment a contract expression is evaluated in.
type CEnv struct {
	w       *World
	pkg     *types.Package
	vars    map[string]*Val
	cur     *State // heap reads
	old     *State // heap reads inside old(...)
	fr      *Frame // locals by name (loop invariants)
	lets    []*LetDef
	reads   map[string]bool
	readIdx map[string][]string // heap key -> index terms read in the current state
	inOld   bool
	prevs   map[int]*State // loop ordinal -> state at that loop's head
	outer   *CEnv          // inside prev(K, ...): the enclosing environment (now(e))
	// skolemEx: the expression is being ASSUMED and the current position is positive and ground: an
	// existential here is replaced by a fresh witness constant (recorded in World.witnessTerms)
	skolemEx bool
}

func (env *CEnv) noteRead(key string, idx Term) {
	if env.inOld {
		return
	}
	if env.reads != nil {
		env.reads[key] = true
	}
	if env.readIdx != nil {
		env.readIdx[key] = append(env.readIdx[key], idx.S)
	}
}

func sortStrings(s []string) { sort.Strings(s) }

func exprString(e *CExpr) string {
	if e == nil {
		return ""
	}
	switch e.Op {
	case "lit.int":
		return fmt.Sprint(e.Int)
	case "lit.str":
		return fmt.Sprintf("%q", e.Str)
	case "lit.bool":
		return fmt.Sprint(e.Bool)
	case "nil":
		return "nil"
	case "id":
		return e.Name
	case "sel":
		return exprString(e.Args[0]) + "." + e.Name
	case "call":
		var a []string
		for _, x := range e.Args[1:] {
			a = append(a, exprString(x))
		}
		return exprString(e.Args[0]) + "(" + strings.Join(a, ", ") + ")"
	case "index":
		return exprString(e.Args[0]) + "[" + exprString(e.Args[1]) + "]"
	case "bin":
		return "(" + exprString(e.Args[0]) + " " + e.Name + " " + exprString(e.Args[1]) + ")"
	case "un":
		return e.Name + exprString(e.Args[0])
	case "type":
		return e.Type.String()
	case "tassert":
		return exprString(e.Args[0]) + ".(" + e.Type.String() + ")"
	case "forall", "exists":
		return e.Op + " ... :: " + exprString(e.Args[0])
	}
	return e.Op
}

func (w *World) contractEnv(fr *Frame, cur, old *State) *CEnv {
	vars := map[string]*Val{}
	for k, v := range fr.params {
		vars[k] = v
	}
	var lets []*LetDef
	var pkg *types.Package
	if fr.contract != nil {
		lets = fr.contract.Lets
	}
	if p := pkgOf(fr.fn); p != nil {
		pkg = p.Pkg
	}
	return &CEnv{w: w, pkg: pkg, vars: vars, cur: cur, old: old, fr: fr, lets: lets, prevs: fr.loopHeads}
}

func pkgOf(fn *ssa.Function) *ssa.Package {
	for f := fn; f != nil; f = f.Parent() {
		if f.Pkg != nil {
			return f.Pkg
		}
	}
	return nil
}

func (w *World) evalBool(env *CEnv, e *CExpr) Term {
	v := w.eval(env, e)
	if v.T.Sort != SBool {
		unsupported("contract expression %s is not boolean (%s)", exprString(e), v.T.Sort)
	}
	return v.T
}

func (env *CEnv) state() *State {
	if env.inOld {
		return env.old
	}
	return env.cur
}

// neutral returns the environment for a sub-expression in which existentials must not be skolemised
// (negative or mixed polarity, or under a binder).
func (env *CEnv) neutral() *CEnv {
	if !env.skolemEx {
		return env
	}
	n := *env
	n.skolemEx = false
	return &n
}

func (env *CEnv) assuming() *CEnv {
	n := *env
	n.skolemEx = true
	return &n
}

func (env *CEnv) with(name string, v *Val) *CEnv {
	n := *env
	n.vars = map[string]*Val{}
	for k, x := range env.vars {
		n.vars[k] = x
	}
	n.vars[name] = v
	return &n
}

// resolveType turns a type expression of the contract language into a Go
// type (for typeIs / type assertions / binders).
func (w *World) resolveType(env *CEnv, t *CType) types.Type {
	var base types.Type
	switch {
	case t.Pkg == "":
		switch t.Name {
		case "int":
			base = types.Typ[types.Int]
		case "string":
			base = types.Typ[types.String]
		case "bool":
			base = types.Typ[types.Bool]
		case "byte":
			base = types.Universe.Lookup("byte").Type()
		case "error":
			base = types.Universe.Lookup("error").Type()
		case "any":
			base = types.Universe.Lookup("any").Type()
		case "Ref":
			base = types.Typ[types.UnsafePointer]
		default:
			if env.pkg != nil {
				if o := env.pkg.Scope().Lookup(t.Name); o != nil {
					base = o.Type()
				}
			}
		}
	default:
		if p := w.findPackage(env, t.Pkg, t.Name); p != nil {
			if o := p.Scope().Lookup(t.Name); o != nil {
				base = o.Type()
			}
		}
	}
	if base == nil {
		unsupported("unknown type %s in contract", t)
	}
	for i := 0; i < t.Ptr; i++ {
		base = types.NewPointer(base)
	}
	if t.Slice {
		base = types.NewSlice(base)
	}
	for i := 0; i < t.PtrOuter; i++ {
		base = types.NewPointer(base)
	}
	return base
}

// findPackage resolves a package qualifier: an import name of the contract's
// package, or the name/path of any loaded package.
func (w *World) findPackage(env *CEnv, name string, member string) *types.Package {
	if env.pkg != nil {
		for _, imp := range env.pkg.Imports() {
			if imp.Name() == name && (member == "" || imp.Scope().Lookup(member) != nil) {
				return imp
			}
		}
		// renamed imports: look at the package's syntax
		if pk := w.l.All[env.pkg.Path()]; pk != nil {
			for _, f := range pk.Syntax {
				for _, is := range f.Imports {
					if is.Name != nil && is.Name.Name == name {
						path := strings.Trim(is.Path.Value, `"`)
						if p := w.l.All[path]; p != nil {
							return p.Types
						}
					}
				}
			}
		}
	}
	var found *types.Package
	var paths []string
	for path := range w.l.All {
		paths = append(paths, path)
	}
	sort.Strings(paths)
	for _, path := range paths {
		p := w.l.All[path]
		if p.Types != nil && p.Types.Name() == name {
			if member != "" && p.Types.Scope().Lookup(member) == nil {
				continue
			}
			if found == nil || strings.HasPrefix(p.PkgPath, modPath) && !strings.HasPrefix(found.Path(), modPath) {
				found = p.Types
			}
		}
	}
	return found
}

func constToVal(c *types.Const) *Val {
	v := c.Val()
	switch v.Kind() {
	case constant.String:
		return &Val{T: strLit(constant.StringVal(v)), Typ: c.Type()}
	case constant.Bool:
		return &Val{T: boolLit(constant.BoolVal(v)), Typ: c.Type()}
	case constant.Int:
		s := v.ExactString()
		if strings.HasPrefix(s, "-") {
			s = "(- " + s[1:] + ")"
		}
		return &Val{T: Term{s, SInt}, Typ: c.Type()}
	}
	unsupported("constant %s in contract", c.Name())
	return nil
}

func (w *World) lookupObject(env *CEnv, pkg *types.Package, name string) *Val {
	o := pkg.Scope().Lookup(name)
	if o == nil {
		return nil
	}
	switch o := o.(type) {
	case *types.Const:
		return constToVal(o)
	case *types.Var:
		if sp := w.l.Prog.Package(pkg); sp != nil {
			if g, ok := sp.Members[name].(*ssa.Global); ok {
				key := w.globalKey(g)
				if env.reads != nil && !env.inOld {
					env.reads[key] = true
				}
				return &Val{T: w.hget(env.state(), key), Typ: o.Type()}
			}
		}
	case *types.Func:
		if sp := w.l.Prog.Package(pkg); sp != nil {
			if f := sp.Func(name); f != nil {
				return &Val{T: w.fnID(f), Typ: o.Type(), Fn: &FnVal{Fn: f}}
			}
		}
		if f := w.l.Prog.FuncValue(o); f != nil {
			return &Val{T: w.fnID(f), Typ: o.Type(), Fn: &FnVal{Fn: f}}
		}
	}
	return nil
}

func (w *World) eval(env *CEnv, e *CExpr) *Val {
	switch e.Op {
	case "lit.int":
		return &Val{T: intLit(e.Int), Typ: types.Typ[types.Int]}
	case "lit.str":
		return &Val{T: strLit(e.Str), Typ: types.Typ[types.String]}
	case "lit.bool":
		return &Val{T: boolLit(e.Bool), Typ: types.Typ[types.Bool]}
	case "nil":
		return &Val{IsNil: true, T: intLit(0)}
	case "id":
		return w.evalIdent(env, e.Name)
	case "sel":
		return w.evalSel(env, e)
	case "call":
		return w.evalCall(env, e)
	case "index":
		return w.evalIndex(env, e)
	case "slice":
		x := w.eval(env, e.Args[0])
		if x.T.Sort != SString {
			unsupported("slice expression on non-string in contract")
		}
		lo := intLit(0)
		if e.Args[1] != nil {
			lo = w.eval(env, e.Args[1]).T
		}
		hi := mk(SInt, "str.len", x.T)
		if e.Args[2] != nil {
			hi = w.eval(env, e.Args[2]).T
		}
		return &Val{T: mk(SString, "str.substr", x.T, lo, sub(hi, lo)), Typ: types.Typ[types.String]}
	case "tassert":
		x := w.eval(env, e.Args[0])
		t := w.resolveType(env, e.Type)
		if _, isIface := t.Underlying().(*types.Interface); isIface {
			return &Val{T: x.T, Typ: t}
		}
		return &Val{T: w.unbox(w.sortOf(t), ival(x.T)), Typ: t}
	case "un":
		x := w.eval(env.neutral(), e.Args[0])
		if e.Name == "!" {
			return &Val{T: not(x.T), Typ: types.Typ[types.Bool]}
		}
		return &Val{T: mk(x.T.Sort, "-", x.T), Typ: x.Typ}
	case "bin":
		return w.evalBin(env, e)
	case "forall", "exists":
		if e.Op == "exists" && env.skolemEx {
			// assumed, positive, ground: name the witness
			inner := env
			for _, b := range e.Binders {
				var srt Sort
				var typ types.Type
				if b.Type.Raw != "" {
					srt = Sort(b.Type.Raw)
				} else if b.Type.Pkg == "" && b.Type.Ptr == 0 && !b.Type.Slice && w.isSortName(b.Type.Name) {
					srt = Sort(b.Type.Name)
				} else {
					typ = w.resolveType(env, b.Type)
					srt = w.sortOf(typ)
				}
				c := w.sc.fresh("wit."+b.Name, srt)
				inner = inner.with(b.Name, &Val{T: c, Typ: typ})
				if _, isBasic := typ.(*types.Basic); srt == SInt && (typ == nil || isBasic) {
					w.witnessTerms = append(w.witnessTerms, c)
				}
			}
			return &Val{T: w.evalBool(inner, e.Args[0]), Typ: types.Typ[types.Bool]}
		}
		env = env.neutral()
		inner := env
		var bs []string
		var guards []Term
		for _, b := range e.Binders {
			var srt Sort
			var typ types.Type
			if b.Type.Raw != "" {
				srt = Sort(b.Type.Raw)
			} else if b.Type.Pkg == "" && b.Type.Ptr == 0 && !b.Type.Slice && w.isSortName(b.Type.Name) {
				srt = Sort(b.Type.Name)
			} else {
				typ = w.resolveType(env, b.Type)
				srt = w.sortOf(typ)
			}
			name := "q!" + b.Name
			bs = append(bs, fmt.Sprintf("(%s %s)", sym(name), srt))
			inner = inner.with(b.Name, &Val{T: Term{sym(name), srt}, Typ: typ})
		}
		body := w.evalBool(inner, e.Args[0])
		_ = guards
		return &Val{T: Term{fmt.Sprintf("(%s (%s) %s)", e.Op, strings.Join(bs, " "), body.S), SBool}, Typ: types.Typ[types.Bool]}
	}
	unsupported("contract expression %s", e.Op)
	return nil
}

func (w *World) isSortName(n string) bool {
	switch n {
	case "Int", "Bool", "String", "Iface", "Slice", "Real":
		return true
	}
	return false
}

func (w *World) evalIdent(env *CEnv, name string) *Val {
	if v, ok := env.vars[name]; ok {
		return v
	}
	for _, l := range env.lets {
		if l.Name == name {
			return w.eval(env, l.Expr)
		}
	}
	if env.pkg != nil {
		if c, ok := w.specs.Consts[env.pkg.Path()+"::"+name]; ok {
			return w.eval(env, c)
		}
	}
	if c, ok := w.specs.Consts["::"+name]; ok {
		return w.eval(env, c)
	}
	if key, ok := w.ghostKey(name); ok {
		if env.reads != nil && !env.inOld {
			env.reads[key] = true
		}
		return &Val{T: w.hget(env.state(), key)}
	}
	if fn, ok := w.specs.Fns[name]; ok && len(fn.Params) == 0 {
		return &Val{T: Term{sym(name), fn.Result}}
	}
	// locals of the function (loop invariants)
	if env.fr != nil {
		if v := w.localByName(env, name); v != nil {
			return v
		}
	}
	if env.pkg != nil {
		if v := w.lookupObject(env, env.pkg, name); v != nil {
			return v
		}
	}
	unsupported("unknown identifier %q in contract", name)
	return nil
}

// localByName finds a local variable of the function by its source name;
// "name#2" selects the second variable of that name (in allocation order).
func (w *World) localByName(env *CEnv, name string) *Val {
	fr := env.fr
	if fr.top {
		// a binding of the full name ("x#2" := "y") wins over one of the base name
		if r, ok := w.toReal[name]; ok {
			name = r
		} else if i := strings.Index(name, "#"); i > 0 {
			name = w.realNameOf(name[:i]) + name[i:]
		} else {
			name = w.realNameOf(name)
		}
	}
	want, ord := name, 1
	if i := strings.Index(name, "#"); i > 0 {
		want = name[:i]
		fmt.Sscanf(name[i+1:], "%d", &ord)
	}
	n := 0
	for _, b := range fr.fn.Blocks {
		for _, ins := range b.Instrs {
			a, ok := ins.(*ssa.Alloc)
			if !ok || a.Comment != want {
				continue
			}
			n++
			if n != ord {
				continue
			}
			et := deref(a.Type())
			if !a.Heap {
				// locals are not part of the heap: old(...) does not affect them
				v, live := env.cur.cells[cellID{fr.id, a}]
				if !live {
					unsupported("local %s is not live where the contract mentions it", name)
				}
				return &Val{T: v, Typ: et}
			}
			if p := spilledParam(a); p != nil {
				if v, ok := fr.vals[p]; ok && v.T.S != "" {
					return v
				}
			}
			pv, ok := fr.vals[a]
			if !ok {
				unsupported("local %s is not allocated where the contract mentions it", name)
			}
			return w.loadPtrQuiet(env.state(), pv, a.Type())
		}
	}
	return nil
}

func (w *World) loadPtrQuiet(st *State, v *Val, ptrT types.Type) *Val {
	et := deref(ptrT)
	if l := w.locOf(v, ptrT); l != nil {
		return &Val{T: w.loadLoc(st, l), Typ: et}
	}
	return w.loadPtr(st, v, ptrT)
}

func fieldIndex(st *types.Struct, name string) int {
	for i := 0; i < st.NumFields(); i++ {
		if st.Field(i).Name() == name {
			return i
		}
	}
	return -1
}

func (w *World) evalSel(env *CEnv, e *CExpr) *Val {
	// package-qualified identifier
	if id := e.Args[0]; id.Op == "id" {
		if _, isVar := env.vars[id.Name]; !isVar && !w.isLet(env, id.Name) {
			if env.fr == nil || w.localByNameExists(env, id.Name) == false {
				if p := w.findPackage(env, id.Name, e.Name); p != nil {
					if v := w.lookupObject(env, p, e.Name); v != nil {
						return v
					}
				}
			}
		}
	}
	x := w.eval(env, e.Args[0])
	// pseudo-fields of slices
	if x.T.Sort == SSlice {
		switch e.Name {
		case "arr":
			return &Val{T: sarr(x.T), Typ: types.Typ[types.Int]}
		case "off":
			return &Val{T: soff(x.T), Typ: types.Typ[types.Int]}
		case "cap":
			return &Val{T: scap(x.T), Typ: types.Typ[types.Int]}
		}
	}
	if x.T.Sort == SIface {
		switch e.Name {
		case "tag":
			return &Val{T: itag(x.T), Typ: types.Typ[types.Int]}
		case "val":
			return &Val{T: ival(x.T), Typ: types.Typ[types.Int]}
		}
	}
	if x.Typ == nil {
		unsupported("field %s of untyped specification value", e.Name)
	}
	t := x.Typ
	if p, ok := t.Underlying().(*types.Pointer); ok {
		et := p.Elem()
		stt, ok := et.Underlying().(*types.Struct)
		if !ok {
			unsupported("field %s of non-struct pointer", e.Name)
		}
		i := fieldIndex(stt, e.Name)
		if i < 0 {
			// promoted field through an embedded struct
			unsupported("no field %s in %s", e.Name, et)
		}
		key := w.fieldKey(et, i)
		env.noteRead(key, x.T)
		return &Val{T: sel(w.hget(env.state(), key), x.T), Typ: stt.Field(i).Type()}
	}
	if stt, ok := t.Underlying().(*types.Struct); ok {
		i := fieldIndex(stt, e.Name)
		if i < 0 {
			unsupported("no field %s in %s", e.Name, t)
		}
		return &Val{T: mk(w.sortOf(stt.Field(i).Type()), w.structSel(t, i), x.T), Typ: stt.Field(i).Type()}
	}
	unsupported("selector .%s on %s", e.Name, t)
	return nil
}

func (w *World) isLet(env *CEnv, name string) bool {
	for _, l := range env.lets {
		if l.Name == name {
			return true
		}
	}
	return false
}

func (w *World) localByNameExists(env *CEnv, name string) bool {
	if env.fr == nil {
		return false
	}
	if env.fr.top {
		name = w.realNameOf(name)
	}
	if i := strings.Index(name, "#"); i > 0 {
		name = name[:i]
	}
	for _, b := range env.fr.fn.Blocks {
		for _, ins := range b.Instrs {
			if a, ok := ins.(*ssa.Alloc); ok && a.Comment == name {
				return true
			}
		}
	}
	return false
}

func (w *World) evalIndex(env *CEnv, e *CExpr) *Val {
	x := w.eval(env, e.Args[0])
	i := w.eval(env, e.Args[1])
	if x.Typ != nil {
		switch t := x.Typ.Underlying().(type) {
		case *types.Slice:
			key := w.elemsKeyT(t.Elem())
			env.noteRead(key, x.T)
			v := &Val{T: sel(sel(w.hget(env.state(), key), sarr(x.T)), add(soff(x.T), i.T)), Typ: t.Elem()}
			if _, isPtr := t.Elem().Underlying().(*types.Pointer); isPtr && !strings.Contains(v.T.S, "q!") {
				// type invariant of the memory model: a pointer stored in a backing array is nil or refers to an
				// allocated object (the same assumption every load in the body makes)
				w.sc.assume(and(le(intLit(0), v.T), le(v.T, w.hget(env.state(), allocKey))))
			}
			return v
		case *types.Map:
			v, _ := w.mapLoadEnv(env, t, x.T, i.T)
			return &Val{T: v, Typ: t.Elem()}
		case *types.Basic:
			if x.T.Sort == SString {
				return &Val{T: mk(SInt, "str.to_code", mk(SString, "str.at", x.T, i.T)), Typ: types.Typ[types.Int]}
			}
		}
	}
	if _, el, ok := arrayParts(x.T.Sort); ok {
		return &Val{T: sel(x.T, i.T), Typ: nil}
		_ = el
	}
	unsupported("index expression on %s", x.T.Sort)
	return nil
}

func (w *World) mapLoadEnv(env *CEnv, mt *types.Map, m, k Term) (Term, Term) {
	ks, vs := w.sortOf(mt.Key()), w.sortOf(mt.Elem())
	dk, vk := w.mapKeys(ks, vs)
	env.noteRead(dk, m)
	env.noteRead(vk, m)
	st := env.state()
	ok := and(not(eq(m, intLit(0))), sel(sel(w.hget(st, dk), m), k))
	v := ite(ok, sel(sel(w.hget(st, vk), m), k), w.zero(mt.Elem()))
	return v, ok
}

func (w *World) evalBin(env *CEnv, e *CExpr) *Val {
	op := e.Name
	boolT := types.Typ[types.Bool]
	switch op {
	case "==>":
		return &Val{T: implies(w.evalBool(env.neutral(), e.Args[0]), w.evalBool(env, e.Args[1])), Typ: boolT}
	case "<==>":
		return &Val{T: eq(w.evalBool(env.neutral(), e.Args[0]), w.evalBool(env.neutral(), e.Args[1])), Typ: boolT}
	case "&&":
		return &Val{T: and(w.evalBool(env, e.Args[0]), w.evalBool(env, e.Args[1])), Typ: boolT}
	case "||":
		return &Val{T: or(w.evalBool(env, e.Args[0]), w.evalBool(env, e.Args[1])), Typ: boolT}
	}
	env = env.neutral()
	x, y := w.eval(env, e.Args[0]), w.eval(env, e.Args[1])
	switch op {
	case "==", "!=":
		var t Term
		switch {
		case x.IsNil && y.IsNil:
			t = tTrue
		case y.IsNil:
			t = isNilTerm(x.T)
		case x.IsNil:
			t = isNilTerm(y.T)
		default:
			if x.T.Sort != y.T.Sort {
				unsupported("comparison of %s and %s in contract (%s)", x.T.Sort, y.T.Sort, exprString(e))
			}
			t = eq(x.T, y.T)
		}
		if op == "!=" {
			t = not(t)
		}
		return &Val{T: t, Typ: boolT}
	case "<", "<=", ">", ">=":
		if x.T.Sort == SString {
			switch op {
			case "<":
				return &Val{T: mk(SBool, "str.<", x.T, y.T), Typ: boolT}
			case "<=":
				return &Val{T: mk(SBool, "str.<=", x.T, y.T), Typ: boolT}
			case ">":
				return &Val{T: mk(SBool, "str.<", y.T, x.T), Typ: boolT}
			default:
				return &Val{T: mk(SBool, "str.<=", y.T, x.T), Typ: boolT}
			}
		}
		return &Val{T: mk(SBool, op, x.T, y.T), Typ: boolT}
	case "+":
		if x.T.Sort == SString {
			return &Val{T: mk(SString, "str.++", x.T, y.T), Typ: x.Typ}
		}
		return &Val{T: mk(x.T.Sort, "+", x.T, y.T), Typ: x.Typ}
	case "-", "*":
		return &Val{T: mk(x.T.Sort, op, x.T, y.T), Typ: x.Typ}
	case "/":
		return &Val{T: mk(SInt, "div", x.T, y.T), Typ: x.Typ}
	case "%":
		return &Val{T: mk(SInt, "mod", x.T, y.T), Typ: x.Typ}
	}
	unsupported("operator %s in contract", op)
	return nil
}

func isNilTerm(t Term) Term {
	switch t.Sort {
	case SIface:
		return eq(itag(t), intLit(0))
	case SSlice:
		return eq(sarr(t), intLit(0))
	case SInt:
		return eq(t, intLit(0))
	}
	unsupported("nil comparison on sort %s", t.Sort)
	return Term{}
}

func (w *World) evalCall(env *CEnv, e *CExpr) *Val {
	fnE := e.Args[0]
	args := e.Args[1:]
	boolT := types.Typ[types.Bool]
	intT := types.Typ[types.Int]
	strT := types.Typ[types.String]
	if fnE.Op != "id" {
		unsupported("call of non-identifier in contract")
	}
	name := fnE.Name
	env = env.neutral() // arguments of builtins and macros: no witness naming
	ev := func(i int) *Val { return w.eval(env, args[i]) }
	switch name {
	case "addr":
		// addr(x.f): the (abstract) address of field f of object x
		if len(args) != 1 || args[0].Op != "sel" {
			unsupported("addr() needs a field selector")
		}
		base := w.eval(env, args[0].Args[0])
		if base.Typ == nil {
			unsupported("addr() of untyped value")
		}
		et := deref(base.Typ)
		stt := et.Underlying().(*types.Struct)
		fi := fieldIndex(stt, args[0].Name)
		if fi < 0 {
			unsupported("no field %s", args[0].Name)
		}
		t, _ := w.addrTerm(&Val{Loc: &Loc{kind: "field", base: base.T, styp: et, field: fi, rootT: stt.Field(fi).Type()}})
		return &Val{T: t, Typ: types.NewPointer(stt.Field(fi).Type())}
	case "goRegex":
		// goRegex(v): the language MatchString accepts for the package-level regexp variable v,
		// translated from the literal in the source on every run
		if len(args) != 1 || args[0].Op != "id" {
			unsupported("goRegex needs the name of a package-level regexp variable")
		}
		lit, ok := w.regexLiteral(env, args[0].Name)
		if !ok {
			unsupported("no regexp literal found for %s", args[0].Name)
		}
		smt, err := goRegexToSMT(lit)
		if err != nil {
			unsupported("regexp %q: %v", lit, err)
		}
		w.assumption("package regexp: MatchString(re, s) holds exactly when s contains a match of the literal (search semantics), translated mechanically to an SMT regular language")
		return &Val{T: Term{smt, "RegLan"}}
	case "inRe":
		return &Val{T: mk(SBool, "str.in_re", ev(0).T, ev(1).T), Typ: boolT}
	case "old":
		n := *env
		n.inOld = true
		return w.eval(&n, args[0])
	case "ranged":
		// ranged(K): the slice loop K ranges over
		if len(args) != 1 || args[0].Op != "lit.int" || env.fr == nil || env.fr.loops == nil {
			unsupported("ranged(K) takes a loop ordinal")
		}
		for h, k := range env.fr.loops.isHeader {
			if k != int(args[0].Int) {
				continue
			}
			if h.Comment != "rangeindex.loop" {
				// a counted loop "for i := ...; i < len(S); i++" walks S as a range over S does
				if _, lenArg := countedLoop(h); lenArg != nil {
					if v := w.evalOperand(env, lenArg); v != nil && v.T.S != "" {
						if _, isSlice := v.Typ.Underlying().(*types.Slice); isSlice {
							return v
						}
					}
				}
				continue
			}
			for _, ins := range h.Instrs {
				cmp, ok := ins.(*ssa.BinOp)
				if !ok || cmp.Op != token.LSS {
					continue
				}
				if c, ok := cmp.Y.(*ssa.Call); ok {
					if b, ok := c.Call.Value.(*ssa.Builtin); ok && b.Name() == "len" && len(c.Call.Args) == 1 {
						if v, ok := env.fr.vals[c.Call.Args[0]]; ok && v.T.S != "" {
							return v
						}
					}
				}
			}
		}
		unsupported("ranged(%d): loop %d is not a range over a slice", args[0].Int, args[0].Int)
	case "rangeidx":
		// rangeidx(K): the hidden index of the range-over-slice loop K (-1 before the first element)
		if len(args) != 1 || args[0].Op != "lit.int" || env.fr == nil || env.fr.loops == nil {
			unsupported("rangeidx(K) takes a loop ordinal")
		}
		for h, k := range env.fr.loops.isHeader {
			if k != int(args[0].Int) {
				continue
			}
			if a := rangeIndexAlloc(h); a != nil {
				v, live := env.cur.cells[cellID{env.fr.id, a}]
				if !live {
					unsupported("rangeidx(%d): the loop is not running where the contract mentions it", args[0].Int)
				}
				return &Val{T: v, Typ: intT}
			}
			// counted loop: the index of the element processed last is the loop variable minus one, at the head
			// (before the element at the variable is processed) and on the back edge (after the increment) alike
			if a, lenArg := countedLoop(h); a != nil && lenArg != nil {
				if !a.Heap {
					if v, live := env.cur.cells[cellID{env.fr.id, a}]; live {
						return &Val{T: sub(v, intLit(1)), Typ: intT}
					}
				}
				unsupported("rangeidx(%d): the loop variable is not a plain local where the contract mentions it", args[0].Int)
			}
		}
		unsupported("rangeidx(%d): loop %d is not a range over a slice", args[0].Int, args[0].Int)
	case "prev":
		// prev(K, e): the value of e at the head of loop K in this iteration
		if len(args) != 2 || args[0].Op != "lit.int" {
			unsupported("prev(K, e) takes a loop ordinal and an expression")
		}
		k := int(args[0].Int)
		hs := env.prevs[k]
		if hs == nil {
			unsupported("prev(%d, ...) outside loop %d", k, k)
		}
		n := *env
		n.cur = hs
		n.inOld = false
		n.reads, n.readIdx = nil, nil
		n.outer = env
		return w.eval(&n, args[1])
	case "now":
		// now(e) inside prev(K, ...): e in the state the enclosing clause is evaluated in
		if env.outer == nil {
			return ev(0)
		}
		return w.eval(env.outer, args[0])
	case "len":
		x := ev(0)
		switch x.T.Sort {
		case SString:
			return &Val{T: mk(SInt, "str.len", x.T), Typ: intT}
		case SSlice:
			return &Val{T: slen(x.T), Typ: intT}
		case SInt:
			if x.Typ != nil {
				if _, ok := x.Typ.Underlying().(*types.Map); ok {
					env.noteRead("MapLen", x.T)
					w.heapSort["MapLen"] = arraySort(SInt, SInt)
					return &Val{T: ite(eq(x.T, intLit(0)), intLit(0), sel(w.hget(env.state(), "MapLen"), x.T)), Typ: intT}
				}
			}
		}
		unsupported("len of %s in contract", x.T.Sort)
	case "fresh":
		x := ev(0)
		ref := x.T
		if x.T.Sort == SSlice {
			ref = sarr(x.T)
		}
		if x.T.Sort == SIface {
			ref = ival(x.T)
		}
		return &Val{T: lt(w.hget(env.old, allocKey), ref), Typ: boolT}
	case "sinceEntry":
		// sinceEntry(x): x was allocated after the function under contract was entered
		x := ev(0)
		ref := x.T
		if x.T.Sort == SSlice {
			ref = sarr(x.T)
		}
		if x.T.Sort == SIface {
			ref = ival(x.T)
		}
		if w.topEntry == nil {
			unsupported("sinceEntry() outside a function body")
		}
		return &Val{T: lt(w.hget(w.topEntry, allocKey), ref), Typ: boolT}
	case "allocated":
		x := ev(0)
		ref := x.T
		if x.T.Sort == SSlice {
			ref = sarr(x.T)
		}
		return &Val{T: and(lt(intLit(0), ref), le(ref, w.hget(env.state(), allocKey))), Typ: boolT}
	case "typeIs":
		x := ev(0)
		if args[1].Op != "type" && args[1].Op != "id" && args[1].Op != "sel" {
			unsupported("typeIs needs a type")
		}
		t := w.typeArg(env, args[1])
		return &Val{T: eq(itag(x.T), w.tagOf(t)), Typ: boolT}
	case "implements":
		x := ev(0)
		t := w.typeArg(env, args[1])
		w.implFacts[w.implementsFn(t)] = t
		return &Val{T: and(not(eq(itag(x.T), intLit(0))), mk(SBool, w.implementsFn(t), itag(x.T))), Typ: boolT}
	case "iface":
		// iface(*T, v): the interface value holding v with dynamic type *T
		t := w.typeArg(env, args[0])
		v := w.eval(env, args[1])
		return &Val{T: w.mkIface(t, v.T), Typ: nil}
	case "hasPrefix":
		return &Val{T: mk(SBool, "str.prefixof", ev(1).T, ev(0).T), Typ: boolT}
	case "hasSuffix":
		return &Val{T: mk(SBool, "str.suffixof", ev(1).T, ev(0).T), Typ: boolT}
	case "contains":
		return &Val{T: mk(SBool, "str.contains", ev(0).T, ev(1).T), Typ: boolT}
	case "indexOf":
		return &Val{T: mk(SInt, "str.indexof", ev(0).T, ev(1).T, intLit(0)), Typ: intT}
	case "substr":
		return &Val{T: mk(SString, "str.substr", ev(0).T, ev(1).T, ev(2).T), Typ: strT}
	case "ite":
		c, a, b := ev(0), ev(1), ev(2)
		at, bt := a.T, b.T
		if a.IsNil {
			at = zeroOfSort(bt.Sort)
		}
		if b.IsNil {
			bt = zeroOfSort(at.Sort)
		}
		typ := a.Typ
		if typ == nil {
			typ = b.Typ
		}
		return &Val{T: ite(c.T, at, bt), Typ: typ}
	case "select":
		return &Val{T: sel(ev(0).T, ev(1).T)}
	case "store":
		return &Val{T: store(ev(0).T, ev(1).T, ev(2).T)}
	case "inMap":
		// inMap(m, k): k is a key of map m
		m, k := ev(0), ev(1)
		mt := m.Typ.Underlying().(*types.Map)
		_, ok := w.mapLoadEnv(env, mt, m.T, k.T)
		return &Val{T: ok, Typ: boolT}
	case "visited":
		// visited(k): key k has been produced by the (first) map range of the function
		return w.evalVisited(env, args)
	case "box":
		return &Val{T: w.box(ev(0).T), Typ: intT}
	case "unboxStr":
		return &Val{T: w.unbox(SString, ev(0).T), Typ: strT}
	case "ptr":
		// ptr(*T, x): the reference x seen as a pointer of type *T
		t := w.typeArg(env, args[0])
		return &Val{T: ev(1).T, Typ: t}
	case "load":
		p := ev(0)
		if p.Typ == nil {
			unsupported("load of untyped pointer in contract")
		}
		et := deref(p.Typ)
		key := w.cellKey(w.sortOf(et))
		env.noteRead(key, p.T)
		return &Val{T: sel(w.hget(env.state(), key), p.T), Typ: et}
	case "local":
		// local(x): the current value of the body's variable x, also when x is a parameter that the body keeps
		// in a cell of its own (a bare parameter name denotes the value passed in)
		if len(args) != 1 || args[0].Op != "id" || env.fr == nil {
			unsupported("local() takes the name of a variable of the function body")
		}
		if v := w.localByName(env, args[0].Name); v != nil {
			return v
		}
		return w.evalIdent(env, args[0].Name)
	case "captured":
		// captured(v): the value the captured variable v holds in the state the clause talks about
		// (a bare v is the value it held when the closure was entered)
		if len(args) != 1 || args[0].Op != "id" {
			unsupported("captured() takes the name of a captured variable")
		}
		p, ok := env.vars["&"+args[0].Name]
		if !ok {
			unsupported("captured(%s): not a captured variable", args[0].Name)
		}
		et := deref(p.Typ)
		key := w.cellKey(w.sortOf(et))
		env.noteRead(key, p.T)
		return &Val{T: sel(w.hget(env.state(), key), p.T), Typ: et}
	case "backing":
		x := ev(0)
		et := x.Typ.Underlying().(*types.Slice).Elem()
		key := w.elemsKeyT(et)
		env.noteRead(key, x.T)
		return &Val{T: sel(w.hget(env.state(), key), sarr(x.T))}
	case "alloc":
		return &Val{T: w.hget(env.state(), allocKey), Typ: intT}
	case "int2str":
		return &Val{T: mk(SString, "str.from_int", ev(0).T), Typ: strT}
	}
	if m, ok := w.lookupMacro(env, name); ok {
		if len(m.Params) != len(args) {
			unsupported("macro %s expects %d arguments", name, len(m.Params))
		}
		inner := env
		for i, p := range m.Params {
			inner = inner.with(p, ev(i))
		}
		return w.eval(inner, m.Body)
	}
	if fn, ok := w.specs.Fns[name]; ok {
		if len(fn.Params) != len(args) {
			unsupported("spec function %s expects %d arguments, got %d", name, len(fn.Params), len(args))
		}
		var ts []Term
		for i := range args {
			v := ev(i)
			t := v.T
			if v.IsNil {
				t = zeroOfSort(fn.Params[i])
			}
			if t.Sort != fn.Params[i] {
				unsupported("argument %d of %s has sort %s, want %s (%s)", i+1, name, t.Sort, fn.Params[i], exprString(e))
			}
			ts = append(ts, t)
		}
		if len(ts) == 0 {
			return &Val{T: Term{sym(name), fn.Result}}
		}
		return &Val{T: mk(fn.Result, sym(name), ts...)}
	}
	unsupported("unknown function %s in contract", name)
	return nil
}

// lookupMacro finds a macro of the contract's own package, then of the models.
func (w *World) lookupMacro(env *CEnv, name string) (*Macro, bool) {
	if env.pkg != nil {
		if m, ok := w.specs.Macros[env.pkg.Path()+"::"+name]; ok {
			return m, true
		}
	}
	m, ok := w.specs.Macros["::"+name]
	return m, ok
}

func (w *World) typeArg(env *CEnv, e *CExpr) types.Type {
	switch e.Op {
	case "type":
		return w.resolveType(env, e.Type)
	case "id":
		return w.resolveType(env, &CType{Name: e.Name})
	case "sel":
		if e.Args[0].Op == "id" {
			return w.resolveType(env, &CType{Pkg: e.Args[0].Name, Name: e.Name})
		}
	}
	unsupported("type expected in contract")
	return nil
}

func (w *World) evalVisited(env *CEnv, args []*CExpr) *Val {
	if env.fr == nil {
		unsupported("visited() outside a function body")
	}
	ord := 1
	if len(args) > 1 {
		ord = int(args[1].Int)
	}
	n := 0
	for _, b := range env.fr.fn.Blocks {
		for _, ins := range b.Instrs {
			if rg, ok := ins.(*ssa.Range); ok {
				n++
				if n == ord {
					key := w.rangeKey[rg]
					if key == "" {
						unsupported("range %d not yet started", ord)
					}
					return &Val{T: sel(w.hget(env.state(), key), w.eval(env, args[0]).T), Typ: types.Typ[types.Bool]}
				}
			}
		}
	}
	unsupported("no map range %d in function", ord)
	return nil
}

// rangeIndexAlloc returns the hidden index variable of a compiler-generated range-over-slice loop header.
func rangeIndexAlloc(h *ssa.BasicBlock) *ssa.Alloc {
	if h.Comment != "rangeindex.loop" {
		return nil
	}
	for _, ins := range h.Instrs {
		if cmp, ok := ins.(*ssa.BinOp); ok && cmp.Op == token.LSS {
			if inc, ok := cmp.X.(*ssa.BinOp); ok && inc.Op == token.ADD {
				if ld, ok := inc.X.(*ssa.UnOp); ok {
					if a, ok := ld.X.(*ssa.Alloc); ok && a.Comment == "rangeindex" {
						return a
					}
				}
			}
		}
	}
	return nil
}

// countedLoop recognises the header of "for i := ...; i < len(S); ..." and returns the loop variable and the
// operand of len.
func countedLoop(h *ssa.BasicBlock) (*ssa.Alloc, ssa.Value) {
	if len(h.Instrs) == 0 {
		return nil, nil
	}
	iff, ok := h.Instrs[len(h.Instrs)-1].(*ssa.If)
	if !ok {
		return nil, nil
	}
	cmp, ok := iff.Cond.(*ssa.BinOp)
	if !ok || cmp.Op != token.LSS {
		return nil, nil
	}
	ld, ok := cmp.X.(*ssa.UnOp)
	if !ok || ld.Op != token.MUL {
		return nil, nil
	}
	a, ok := ld.X.(*ssa.Alloc)
	if !ok {
		return nil, nil
	}
	c, ok := cmp.Y.(*ssa.Call)
	if !ok {
		return nil, nil
	}
	if b, ok := c.Call.Value.(*ssa.Builtin); !ok || b.Name() != "len" || len(c.Call.Args) != 1 {
		return nil, nil
	}
	return a, c.Call.Args[0]
}

// evalOperand evaluates, in the state a clause talks about, an SSA operand that is a chain of loads from locals
// and fields (the operand of len in a counted loop's condition is recomputed on every iteration, so its SSA
// value may not exist yet where a clause mentions the loop).
func (w *World) evalOperand(env *CEnv, v ssa.Value) *Val {
	switch x := v.(type) {
	case *ssa.Parameter, *ssa.FreeVar, *ssa.Const, *ssa.Global:
		if val, ok := env.fr.vals[v]; ok {
			return val
		}
		if c, ok := v.(*ssa.Const); ok {
			return w.constVal(c)
		}
	case *ssa.UnOp:
		if x.Op != token.MUL {
			break
		}
		switch a := x.X.(type) {
		case *ssa.Alloc:
			if !a.Heap {
				if cur, live := env.cur.cells[cellID{env.fr.id, a}]; live {
					return &Val{T: cur, Typ: deref(a.Type())}
				}
				return nil
			}
			if pv, ok := env.fr.vals[a]; ok {
				return w.loadPtrQuiet(env.state(), pv, a.Type())
			}
		case *ssa.FieldAddr:
			base := w.evalOperand(env, a.X)
			if base == nil || base.T.S == "" {
				return nil
			}
			pt := deref(a.X.Type())
			stt, ok := pt.Underlying().(*types.Struct)
			if !ok {
				return nil
			}
			key := w.fieldKey(pt, a.Field)
			env.noteRead(key, base.T)
			return &Val{T: sel(w.hget(env.state(), key), base.T), Typ: stt.Field(a.Field).Type()}
		}
	}
	if val, ok := env.fr.vals[v]; ok {
		return val
	}
	return nil
}
