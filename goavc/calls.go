package main

import (
	"fmt"
	"go/token"
	"go/types"
	"os"
	"strings"

	"golang.org/x/tools/go/ssa"
)

func (w *World) execCall(fr *Frame, st *State, ins *ssa.Call) {
	w.execCallCommon(fr, st, &ins.Call, ins, nil, ins.Pos())
}

// calleeOf resolves the target of a call when it is statically known.
func (w *World) calleeOf(fr *Frame, st *State, c *ssa.CallCommon, pre []*Val) (fn *ssa.Function, bindings []*Val, recv *Val) {
	if c.IsInvoke() {
		var rv *Val
		if pre != nil {
			rv = pre[0]
		} else if st != nil {
			rv = w.val(fr, st, c.Value)
		}
		if rv != nil && rv.Dyn != nil {
			m := w.l.Prog.LookupMethod(rv.Dyn.Typ, c.Method.Pkg(), c.Method.Name())
			if m != nil {
				return m, nil, rv.Dyn
			}
		}
		return nil, nil, nil
	}
	if f := c.StaticCallee(); f != nil {
		if mc, ok := c.Value.(*ssa.MakeClosure); ok && st != nil {
			for _, b := range mc.Bindings {
				bindings = append(bindings, w.val(fr, st, b))
			}
		}
		return f, bindings, nil
	}
	if st != nil {
		v := w.val(fr, st, c.Value)
		if v.Fn != nil && v.Fn.Fn != nil {
			return v.Fn.Fn, v.Fn.Bindings, nil
		}
	}
	return nil, nil, nil
}

// calleeVarName names the variable a dynamic call goes through.
func calleeVarName(v ssa.Value) string {
	switch x := v.(type) {
	case *ssa.Parameter:
		return x.Name()
	case *ssa.FreeVar:
		return x.Name()
	case *ssa.UnOp:
		if x.Op == token.MUL {
			switch a := x.X.(type) {
			case *ssa.Alloc:
				return a.Comment
			case *ssa.FreeVar:
				return a.Name()
			case *ssa.FieldAddr:
				st := deref(a.X.Type()).Underlying().(*types.Struct)
				return st.Field(a.Field).Name()
			case *ssa.Global:
				return a.Name()
			}
		}
	}
	return ""
}

func ifaceMethodKeys(c *ssa.CallCommon) []string {
	var keys []string
	qual := func(t types.Type) string { return types.TypeString(types.Unalias(t), nil) }
	keys = append(keys, qual(c.Value.Type())+"."+c.Method.Name())
	if sig, ok := c.Method.Type().(*types.Signature); ok && sig.Recv() != nil {
		k := qual(sig.Recv().Type()) + "." + c.Method.Name()
		if k != keys[0] {
			keys = append(keys, k)
		}
	}
	return keys
}

// resolveContract finds the contract that governs a call, if any.
func (w *World) resolveContract(fr *Frame, c *ssa.CallCommon, st *State) (*Contract, *ssa.Function) {
	if c.IsInvoke() {
		if fn, _, _ := w.calleeOf(fr, st, c, nil); fn != nil {
			if ct := w.contractFor(fn); ct != nil {
				return ct, fn
			}
			return nil, fn
		}
		// a callspec of the function under contract, keyed by the method's name, refines the call site
		if fr.contract != nil {
			if cs := fr.contract.CallSpecs[c.Method.Name()]; cs != nil {
				return cs, nil
			}
		}
		for _, k := range ifaceMethodKeys(c) {
			if ct := w.specs.Contracts[ifaceKey(k)]; ct != nil {
				return ct, nil
			}
		}
		return nil, nil
	}
	fn, _, _ := w.calleeOf(fr, st, c, nil)
	if fn != nil {
		// a callspec of the function under contract named after a module
		// function ("(*Object).Set") refines that function's contract at
		// the calls made here
		if fr.top && fr.contract != nil && w.inModule(fn) {
			if cs := fr.contract.CallSpecs[funcName(fn)]; cs != nil {
				// ... and the refined function's own (verified) contract still
				// holds at the call: its requires are obligations, its ensures
				// are assumed beside the callspec's
				if base := w.contractFor(fn); base != nil && base != cs && cs.Base == nil {
					cp := *cs
					cp.Base = base
					return &cp, fn
				}
				return cs, fn
			}
		}
		return w.contractFor(fn), fn
	}
	var specs map[string]*Contract
	if fr.contract != nil && len(fr.contract.CallSpecs) > 0 {
		specs = fr.contract.CallSpecs
	} else {
		specs = fr.callspecs
	}
	if name := calleeVarName(c.Value); name != "" && specs != nil {
		if fr.top {
			name = w.contractNameOf(name)
		}
		if cs := specs[name]; cs != nil {
			return cs, nil
		}
	}
	// no callspec under the variable's name: a callspec attached to a
	// variable of the same function type applies (keeps contracts stable
	// when a local copy of the function value is introduced or renamed)
	if specs != nil {
		top := fr
		for top.parent != nil {
			top = top.parent
		}
		var found *Contract
		n := 0
		var names []string
		for k := range specs {
			names = append(names, k)
		}
		sortStrings(names)
		for _, k := range names {
			if t := varTypeByName(top.fn, w.realNameOf(k)); t != nil && types.Identical(t, c.Value.Type()) {
				found = specs[k]
				n++
			}
		}
		if n == 1 {
			return found, nil
		}
	}
	return nil, nil
}

// varTypeByName finds the type of a parameter, free variable or local of fn.
func varTypeByName(fn *ssa.Function, name string) types.Type {
	for _, p := range fn.Params {
		if p.Name() == name {
			return p.Type()
		}
	}
	for _, fv := range fn.FreeVars {
		if fv.Name() == name {
			return deref(fv.Type())
		}
	}
	for _, b := range fn.Blocks {
		for _, ins := range b.Instrs {
			if a, ok := ins.(*ssa.Alloc); ok && a.Comment == name {
				return deref(a.Type())
			}
		}
	}
	return nil
}

func (w *World) contractFor(fn *ssa.Function) *Contract {
	if w.inModule(fn) {
		pkg := fn.Pkg
		for f := fn; pkg == nil && f != nil; f = f.Parent() {
			pkg = f.Pkg
		}
		if pkg != nil {
			if ct := w.specs.Contracts[funcKey(pkg.Pkg.Path(), funcName(fn))]; ct != nil {
				return ct
			}
		}
	}
	name := fn.String()
	if ct := w.specs.Contracts[externKey(name)]; ct != nil {
		return ct
	}
	// generic instantiations: strip type arguments
	if i := strings.Index(name, "["); i > 0 {
		if ct := w.specs.Contracts[externKey(name[:i])]; ct != nil {
			return ct
		}
	}
	return nil
}

func (w *World) execCallCommon(fr *Frame, st *State, c *ssa.CallCommon, ins *ssa.Call, pre []*Val, pos token.Pos) {
	setResult := func(v *Val) {
		if ins != nil {
			fr.vals[ins] = v
		}
	}
	if b, ok := c.Value.(*ssa.Builtin); ok {
		setResult(w.execBuiltin(fr, st, b, c, pre))
		return
	}
	// arguments (receiver first for invokes)
	var args []*Val
	if pre != nil {
		args = pre
	} else {
		if c.IsInvoke() {
			args = append(args, w.val(fr, st, c.Value))
		}
		for _, a := range c.Args {
			av := w.val(fr, st, a)
			if av.T.S == "" {
				if t, ok := w.addrTerm(av); ok {
					av = &Val{T: t, Typ: av.Typ, Loc: av.Loc}
				}
			}
			args = append(args, av)
		}
	}
	sig := c.Signature()
	if pre == nil && c.IsInvoke() && len(args) > 0 && args[0].Dyn == nil {
		w.derefPoint(fr, st, itag(args[0].T), "method call on nil interface", pos)
	}
	ct, callee := w.resolveContract(fr, c, st)
	fn, bindings, recv := w.calleeOf(fr, st, c, pre)
	if recv != nil {
		args = append([]*Val{recv}, args[1:]...)
	}
	if special := w.specialCall(fr, st, c, fn, args, ins); special {
		return
	}
	// a call through a variable that is also assigned known functions in
	// this body: split on the identity of the callee
	if fn == nil && !c.IsInvoke() {
		if cands, closed := storedFunctions(fr.fn, c.Value); len(cands) > 0 {
			cv := w.val(fr, st, c.Value)
			var sts []*State
			var results []*Val
			rest := st.clone()
			for _, cand := range cands {
				br := st.clone()
				isC := eq(cv.T, w.fnID(cand))
				br.cond = w.sc.define("pc", and(st.cond, isC))
				rest.cond = w.sc.define("pc", and(rest.cond, not(isC)))
				results = append(results, w.callKnown(fr, br, cand, args, nil, sig))
				sts = append(sts, br)
			}
			if !closed {
				results = append(results, w.callUnknownOrSpec(fr, rest, c, ct, callee, args, sig, bindings))
				sts = append(sts, rest)
			}
			var conds []Term
			for _, x := range sts {
				conds = append(conds, x.cond)
			}
			merged := w.mergeStates(fr.fn.Name()+".dyncall", sts)
			merged.cond = st.cond
			*st = *merged
			if sig.Results().Len() == 1 {
				var vals []Term
				for _, r := range results {
					vals = append(vals, r.T)
				}
				setResult(&Val{T: w.sc.define("dynres", iteChain(conds, vals)), Typ: sig.Results().At(0).Type()})
			} else if sig.Results().Len() == 0 {
				setResult(&Val{Typ: sig.Results()})
			} else {
				unsupported("multi-result dynamic call split in %s", fr.fn.Name())
			}
			return
		}
	}
	setResult(w.callResolved(fr, st, c, ct, callee, fn, args, sig, bindings))
}

// callKnown performs a call to a statically known function of the module or a
// dependency: by contract when it has one, inlined when possible, havoc otherwise.
func (w *World) callKnown(fr *Frame, st *State, fn *ssa.Function, args []*Val, bindings []*Val, sig *types.Signature) *Val {
	ct := w.contractFor(fn)
	return w.callResolved(fr, st, nil, ct, fn, fn, args, sig, bindings)
}

func (w *World) callUnknownOrSpec(fr *Frame, st *State, c *ssa.CallCommon, ct *Contract, callee *ssa.Function, args []*Val, sig *types.Signature, bindings []*Val) *Val {
	return w.callResolved(fr, st, c, ct, callee, nil, args, sig, bindings)
}

func (w *World) callResolved(fr *Frame, st *State, c *ssa.CallCommon, ct *Contract, callee, fn *ssa.Function, args []*Val, sig *types.Signature, bindings []*Val) *Val {
	if ct != nil && !ct.Inline {
		names := ct.Params
		if callee != nil && len(names) == 0 {
			for _, p := range callee.Params {
				names = append(names, p.Name())
			}
		}
		env := map[string]*Val{}
		if callee != nil {
			for i, fv := range callee.FreeVars {
				if i < len(bindings) {
					env[fv.Name()] = bindings[i]
				}
			}
		}
		return w.applyContract(fr, st, ct, names, args, sig, env, contractPkg(w, ct, callee))
	}
	if fn != nil && fn.Blocks != nil && w.inModule(fn) && w.canInline(fr, fn) {
		return w.inlineCall(fr, st, fn, args, bindings)
	}
	// unknown callee: everything it could reach is forgotten
	name := "<dynamic>"
	if fn != nil {
		name = fn.String()
	} else if c != nil && c.IsInvoke() {
		name = ifaceMethodKeys(c)[0]
	} else if c != nil {
		if n := calleeVarName(c.Value); n != "" {
			name = "func value " + n
		}
	}
	w.sc.comment("havoc: call to " + name + " without contract")
	w.havocked = append(w.havocked, name)
	keep := map[string]Term{}
	if w.topContract != nil && len(w.topContract.UnknownPreserve) > 0 {
		var pkg *types.Package
		if p := w.l.All[w.topContract.Pkg]; p != nil {
			pkg = p.Types
		}
		env := &CEnv{w: w, pkg: pkg, vars: map[string]*Val{}, cur: st, old: st}
		for _, pe := range w.topContract.UnknownPreserve {
			for _, k := range w.preservedKeys(env, pe) {
				keep[k] = w.hget(st, k)
			}
		}
		w.assumption("in " + w.topContract.Name + ", calls without a contract are assumed to leave the heap keys of its unknown_calls_preserve clause unchanged")
	}
	snap := w.capturedSnapshot(st)
	preU := st.clone()
	w.havocAll(st)
	for k, v := range keep {
		st.heap[k] = v
	}
	w.keepCaptured(st, preU, snap)
	return w.freshResult(st, sig, "ret")
}

// storedFunctions lists the functions of the program that the body of fn
// assigns to the variable a dynamic call goes through.
// closed reports that the variable is a non-escaping local that only ever
// holds those functions.
func storedFunctions(fn *ssa.Function, callee ssa.Value) (out []*ssa.Function, closed bool) {
	u, ok := callee.(*ssa.UnOp)
	if !ok || u.Op != token.MUL {
		return nil, false
	}
	root := u.X
	if a, ok := root.(*ssa.Alloc); ok && !a.Heap {
		closed = true
	}
	for _, b := range fn.Blocks {
		for _, ins := range b.Instrs {
			if st, ok := ins.(*ssa.Store); ok && st.Addr == root {
				var f *ssa.Function
				switch v := st.Val.(type) {
				case *ssa.Function:
					f = v
				case *ssa.MakeClosure:
					f, _ = v.Fn.(*ssa.Function)
				}
				if f == nil {
					closed = false
				}
				if f != nil {
					dup := false
					for _, o := range out {
						if o == f {
							dup = true
						}
					}
					if !dup {
						out = append(out, f)
					}
				}
			}
		}
	}
	if len(out) == 0 {
		closed = false
	}
	return out, closed
}

func contractPkg(w *World, ct *Contract, callee *ssa.Function) *types.Package {
	if ct.Pkg != "" {
		if p := w.l.All[ct.Pkg]; p != nil {
			return p.Types
		}
	}
	if callee != nil && callee.Pkg != nil {
		return callee.Pkg.Pkg
	}
	return nil
}

func (w *World) freshResult(st *State, sig *types.Signature, hint string) *Val {
	res := sig.Results()
	mkOne := func(t types.Type) *Val {
		v := &Val{T: w.sc.fresh(hint, w.sortOf(t)), Typ: t}
		w.assumeLoaded(st, v)
		return v
	}
	switch res.Len() {
	case 0:
		return &Val{Typ: res}
	case 1:
		return mkOne(res.At(0).Type())
	}
	out := &Val{Typ: res}
	for i := 0; i < res.Len(); i++ {
		out.Tuple = append(out.Tuple, mkOne(res.At(i).Type()))
	}
	return out
}

func (w *World) canInline(fr *Frame, fn *ssa.Function) bool {
	if fr.depth >= 4 {
		return false
	}
	if w.topContract != nil && w.topContract.Opts["inline"] == "none" {
		// a long function whose callees do not matter to its contract: every call without contract is a havoc
		return false
	}
	for f := fr; f != nil; f = f.parentFrame() {
		if f.fn == fn {
			return false
		}
	}
	// loops need invariants: loop-free bodies are inlined; a small helper with simple (un-nested) loops is
	// inlined too, its loops cut without invariant (what they write is forgotten at their heads), which is
	// what the same loop would get if it were written in the caller
	loops, size := 0, 0
	for _, b := range fn.Blocks {
		size += len(b.Instrs)
		for _, s := range b.Succs {
			if s.Dominates(b) {
				loops++
			}
		}
	}
	if loops == 0 {
		return true
	}
	if os.Getenv("GOAVC_INLINE_LOOPS") == "0" || fr.depth >= 2 || size > 80 || loops > 2 {
		return false
	}
	if w.topContract != nil && len(w.topContract.UnknownPreserve) > 0 {
		// the contract under verification states what calls without contract leave alone: such calls stay calls
		return false
	}
	li := analyzeLoops(fn)
	for h := range li.isHeader {
		for _, b := range li.body[h] {
			if b != h && li.isHeader[b] > 0 {
				return false
			}
		}
	}
	return true
}

func (f *Frame) parentFrame() *Frame { return f.parent }

func (w *World) inlineCall(fr *Frame, st *State, fn *ssa.Function, args []*Val, bindings []*Val) *Val {
	fr2 := w.newFrame(fn, fr.depth+1)
	fr2.parent = fr
	fr2.entry = fr.entry
	fr2.callspecs = nil
	if fr.contract != nil {
		fr2.callspecs = fr.contract.CallSpecs
	} else {
		fr2.callspecs = fr.callspecs
	}
	if ct := w.contractFor(fn); ct != nil {
		fr2.contract = &Contract{CallSpecs: ct.CallSpecs, Loops: map[int]*LoopSpec{}, Opts: map[string]string{}}
	}
	if len(args) != len(fn.Params) {
		unsupported("arity mismatch inlining %s", fn.Name())
	}
	for i, p := range fn.Params {
		fr2.vals[p] = args[i]
	}
	for i, fv := range fn.FreeVars {
		if i >= len(bindings) {
			unsupported("closure %s called without its bindings", fn.Name())
		}
		fr2.vals[fv] = bindings[i]
	}
	w.inlined[funcName(fn)] = true
	out, res := w.execBody(fr2, st)
	if out == nil {
		// callee never returns on this path
		st.cond = tFalse
		return w.freshResult(st, fn.Signature, "noret")
	}
	// drop the callee's local cells
	for k := range out.cells {
		if k.frame == fr2.id {
			delete(out.cells, k)
		}
	}
	*st = *out
	switch len(res) {
	case 0:
		return &Val{Typ: fn.Signature.Results()}
	case 1:
		return res[0]
	}
	return &Val{Typ: fn.Signature.Results(), Tuple: res}
}

// applyContract is the call rule: assert the precondition, havoc the frame,
// assume the postcondition.
func (w *World) applyContract(fr *Frame, st *State, ct *Contract, names []string, args []*Val, sig *types.Signature, extra map[string]*Val, pkg *types.Package) *Val {
	vars := map[string]*Val{}
	var csFr *Frame
	if ct.Kind == "callspec" {
		// written inside the caller's contract: the caller's parameters (and, in preconditions, its
		// locals) are in scope
		top := fr
		for top.parent != nil {
			top = top.parent
		}
		for k, v := range top.params {
			vars[k] = v
		}
		if top.top {
			csFr = top
		}
	}
	for k, v := range extra {
		vars[k] = v
	}
	for i, n := range names {
		if i < len(args) {
			vars[n] = args[i]
		}
	}
	label := ct.Name
	w.callOrd["call:"+label]++
	ord := w.callOrd["call:"+label]
	pre := st.clone()
	env := &CEnv{w: w, pkg: pkg, vars: vars, cur: pre, old: pre, lets: ct.Lets, fr: csFr}
	if fr.top || true {
		for i, rq := range ct.Requires {
			lbl := rq.Label
			if lbl == "" {
				lbl = fmt.Sprintf("%d", i+1)
			}
			props := rq.Props
			if len(props) == 0 && w.topContract != nil {
				props = w.topContract.Props
			}
			if w.safetyPreSkipped(ct, rq) {
				continue
			}
			w.oblige("call.pre", fmt.Sprintf("call.%s.%d.pre.%s", label, ord, lbl), st.cond, w.skolemGoal(env, rq.Expr), rq.Star, props)
		}
	}
	// result values
	res := w.freshResultHavoc(st, sig, ct, "r."+shortName(label))
	vars["result"] = res
	if res.Tuple != nil {
		for i, t := range res.Tuple {
			vars[fmt.Sprintf("result%d", i)] = t
		}
	} else {
		vars["result0"] = res
	}
	// frame
	if os.Getenv("GOAVC_DEBUG") != "" {
		fmt.Fprintf(os.Stderr, "call %s: contract kind=%s file=%s modAll=%v modStated=%v preserves=%d\n", label, ct.Kind, ct.File, ct.ModAll, ct.ModStated, len(ct.Preserves))
	}
	if ct.ModAll || (!ct.ModStated && ct.Kind == "func") {
		keep := map[string]Term{}
		for _, pe := range ct.Preserves {
			for _, k := range w.preservedKeys(&CEnv{w: w, pkg: pkg, vars: vars, cur: pre, old: pre, lets: ct.Lets}, pe) {
				keep[k] = w.hget(st, k)
			}
		}
		if (!ct.ModAll || len(ct.Preserves) > 0) && w.topContract != nil && len(w.topContract.UnknownPreserve) > 0 {
			// the callee's contract says nothing about its frame (or only what it preserves at least): beyond
			// that it is as unknown as that of a call without a contract
			var tpkg *types.Package
			if p := w.l.All[w.topContract.Pkg]; p != nil {
				tpkg = p.Types
			}
			uenv := &CEnv{w: w, pkg: tpkg, vars: map[string]*Val{}, cur: st, old: st}
			for _, pe := range w.topContract.UnknownPreserve {
				for _, k := range w.preservedKeys(uenv, pe) {
					keep[k] = w.hget(st, k)
				}
			}
			w.assumption("in " + w.topContract.Name + ", calls without a stated frame are assumed to leave the heap keys of its unknown_calls_preserve clause unchanged")
		}
		snap := w.capturedSnapshot(st)
		w.havocAll(st)
		for k, v := range keep {
			st.heap[k] = v
		}
		w.keepCaptured(st, pre, snap)
		// "modifies all" beside named specification ghosts: those change too (havocAll leaves them alone)
		for _, m := range ct.Modifies {
			if m.Op == "id" {
				if gk, ok := w.ghostKey(m.Name); ok {
					w.havocKey(st, gk)
				}
			}
		}
	} else {
		func() {
			defer func() {
				if r := recover(); r != nil {
					if _, ok := r.(unsupportedErr); !ok {
						panic(r)
					}
				}
			}()
			w.loopCallWriteCheck(fr, st, w.modTargets(&CEnv{w: w, pkg: pkg, vars: vars, cur: pre, old: pre, lets: ct.Lets}, ct))
		}()
		w.havocForContract(st, pre, ct, vars, pkg)
	}
	w.assumeResultWF(st, res)
	post := &CEnv{w: w, pkg: pkg, vars: vars, cur: st, old: pre, lets: ct.Lets}
	for _, en := range ct.Ensures {
		if en.Withdrawn || en.Local {
			continue
		}
		func() {
			// a clause that mentions a type of a package that is not loaded
			// here is not assumed (fewer assumptions: sound)
			defer func() {
				if r := recover(); r != nil {
					if u, ok := r.(unsupportedErr); ok && ct.Trusted && strings.Contains(u.msg, "unknown type") {
						return
					}
					panic(r)
				}
			}()
			w.sc.assume(implies(st.cond, w.evalBool(post.assuming(), en.Expr)))
			w.noteQuantFacts(st.cond, post, en.Expr)
			if en.Assumed {
				w.assumption("clause '" + en.Label + "' of " + ct.Name + " is assumed, not proved (" + en.Src + ")")
			}
		}()
	}
	if base := ct.Base; base != nil {
		bvars := map[string]*Val{}
		for k, v := range extra {
			bvars[k] = v
		}
		for i, n := range base.Params {
			if i < len(args) {
				bvars[n] = args[i]
			}
		}
		for k, v := range vars {
			if strings.HasPrefix(k, "result") {
				bvars[k] = v
			}
		}
		var bpkg *types.Package
		if p := w.l.All[base.Pkg]; p != nil {
			bpkg = p.Types
		}
		benvPre := &CEnv{w: w, pkg: bpkg, vars: bvars, cur: pre, old: pre, lets: base.Lets}
		for i, rq := range base.Requires {
			lbl := rq.Label
			if lbl == "" {
				lbl = fmt.Sprintf("%d", i+1)
			}
			props := rq.Props
			if len(props) == 0 && w.topContract != nil {
				props = w.topContract.Props
			}
			if w.safetyPreSkipped(base, rq) {
				continue
			}
			w.oblige("call.pre", fmt.Sprintf("call.%s.%d.pre.own.%s", label, ord, lbl), pre.cond, w.skolemGoal(benvPre, rq.Expr), rq.Star, props)
		}
		bpost := &CEnv{w: w, pkg: bpkg, vars: bvars, cur: st, old: pre, lets: base.Lets}
		for _, en := range base.Ensures {
			if en.Withdrawn || en.Local {
				continue
			}
			w.sc.assume(implies(st.cond, w.evalBool(bpost.assuming(), en.Expr)))
			w.noteQuantFacts(st.cond, bpost, en.Expr)
		}
		w.usedContracts[base.Kind+" "+base.Name] = base
	}
	w.usedContracts[ct.Kind+" "+ct.Name] = ct
	return res
}

func shortName(s string) string {
	if i := strings.LastIndexAny(s, "./"); i >= 0 && i+1 < len(s) {
		return s[i+1:]
	}
	return s
}

func (w *World) freshResultHavoc(st *State, sig *types.Signature, ct *Contract, hint string) *Val {
	res := sig.Results()
	mkOne := func(t types.Type) *Val {
		return &Val{T: w.sc.fresh(hint, w.sortOf(t)), Typ: t}
	}
	switch res.Len() {
	case 0:
		return &Val{Typ: res}
	case 1:
		return mkOne(res.At(0).Type())
	}
	out := &Val{Typ: res}
	for i := 0; i < res.Len(); i++ {
		out.Tuple = append(out.Tuple, mkOne(res.At(i).Type()))
	}
	return out
}

func (w *World) assumeResultWF(st *State, v *Val) {
	if v.Tuple != nil {
		for _, t := range v.Tuple {
			w.assumeLoaded(st, t)
		}
		return
	}
	if v.T.S != "" {
		w.assumeLoaded(st, v)
	}
}

// preservedKeys resolves one entry of a preserves clause to heap keys:
// T.f (a field of every object of struct type T), elems(*T) (backing arrays
// of element type *T), global(v).
func (w *World) preservedKeys(env *CEnv, e *CExpr) []string {
	switch e.Op {
	case "sel":
		if e.Args[0].Op == "id" {
			t := w.resolveType(env, &CType{Name: e.Args[0].Name})
			if stt, ok := t.Underlying().(*types.Struct); ok {
				if fi := fieldIndex(stt, e.Name); fi >= 0 {
					return []string{w.fieldKey(t, fi)}
				}
			}
		}
	case "call":
		if e.Args[0].Op == "id" && len(e.Args) == 2 {
			switch e.Args[0].Name {
			case "elems":
				return []string{w.elemsKeyT(w.typeArg(env, e.Args[1]))}
			case "global":
				if id := e.Args[1]; id.Op == "id" && env.pkg != nil {
					if sp := w.l.Prog.Package(env.pkg); sp != nil {
						if g, ok := sp.Members[id.Name].(*ssa.Global); ok {
							return []string{w.globalKey(g)}
						}
					}
				}
			case "mapsOf":
				// the contents (domain, values, length) of every map of that type
				if mt, ok := w.typeArg(env, e.Args[1]).Underlying().(*types.Map); ok {
					dk, vk := w.mapKeys(w.sortOf(mt.Key()), w.sortOf(mt.Elem()))
					return []string{dk, vk, "MapLen"}
				}
			case "fieldsOf":
				t := w.typeArg(env, e.Args[1])
				var out []string
				if stt, ok := t.Underlying().(*types.Struct); ok {
					for i := 0; i < stt.NumFields(); i++ {
						out = append(out, w.fieldKey(t, i))
					}
				}
				return out
			}
		}
	}
	unsupported("preserves entry %s not understood", exprString(e))
	return nil
}

// modTarget is one entry of a modifies clause resolved against a state.
type modTarget struct {
	key    string
	whole  bool
	idx    Term            // the index (object reference / array index) that may change
	member func(Term) Term // or: a predicate on the index
	memberAt func(q, i Term) Term // the same predicate with the element index made explicit
}

func (w *World) modTargets(env *CEnv, ct *Contract) []modTarget {
	var out []modTarget
	for _, e := range ct.Modifies {
		out = append(out, w.modTarget(env, e)...)
	}
	return out
}

func (w *World) modTarget(env *CEnv, e *CExpr) []modTarget {
	switch e.Op {
	case "id":
		if k, ok := w.ghostKey(e.Name); ok {
			return []modTarget{{key: k, whole: true}}
		}
		if e.Name == "fresh" {
			return nil
		}
	case "index":
		if e.Args[0].Op == "id" {
			if k, ok := w.ghostKey(e.Args[0].Name); ok {
				return []modTarget{{key: k, idx: w.eval(env, e.Args[1]).T}}
			}
		}
	case "sel":
		x := w.eval(env, e.Args[0])
		if x.Typ != nil {
			if p, ok := x.Typ.Underlying().(*types.Pointer); ok && isStruct(p.Elem()) {
				stt := p.Elem().Underlying().(*types.Struct)
				for i := 0; i < stt.NumFields(); i++ {
					if stt.Field(i).Name() == e.Name {
						return []modTarget{{key: w.fieldKey(p.Elem(), i), idx: x.T}}
					}
				}
			}
		}
	case "call":
		if e.Args[0].Op == "id" {
			switch e.Args[0].Name {
			case "fields":
				x := w.eval(env, e.Args[1])
				p := x.Typ.Underlying().(*types.Pointer)
				stt := p.Elem().Underlying().(*types.Struct)
				var out []modTarget
				for i := 0; i < stt.NumFields(); i++ {
					out = append(out, modTarget{key: w.fieldKey(p.Elem(), i), idx: x.T})
				}
				return out
			case "cellInt":
				// the pointer-sized cell at reference x (whatever its pointee type)
				x := w.eval(env, e.Args[1])
				return []modTarget{{key: w.cellKey(SInt), idx: x.T}}
			case "cell":
				x := w.eval(env, e.Args[1])
				return []modTarget{{key: w.cellKey(w.sortOf(deref(x.Typ))), idx: x.T}}
			case "elems":
				x := w.eval(env, e.Args[1])
				et := x.Typ.Underlying().(*types.Slice).Elem()
				return []modTarget{{key: w.elemsKeyT(et), idx: sarr(x.T)}}
			case "mapOf":
				x := w.eval(env, e.Args[1])
				mt := x.Typ.Underlying().(*types.Map)
				dk, vk := w.mapKeys(w.sortOf(mt.Key()), w.sortOf(mt.Elem()))
				return []modTarget{{key: dk, idx: x.T}, {key: vk, idx: x.T}, {key: "MapLen", idx: x.T}}
			case "each":
				// each(s, f): field f of every element of the slice s (pointers to structs)
				x := w.eval(env, e.Args[1])
				et := x.Typ.Underlying().(*types.Slice).Elem()
				p := et.Underlying().(*types.Pointer)
				stt := p.Elem().Underlying().(*types.Struct)
				fname := e.Args[2].Name
				fi := fieldIndex(stt, fname)
				if fi < 0 {
					unsupported("each(): no field %s", fname)
				}
				ek := w.elemsKeyT(et)
				arr := sel(w.hget(env.state(), ek), sarr(x.T))
				return []modTarget{{key: w.fieldKey(p.Elem(), fi), memberAt: func(q, i Term) Term {
					return and(le(intLit(0), i), lt(i, slen(x.T)), eq(sel(arr, add(soff(x.T), i)), q))
				}, member: func(q Term) Term {
					ex := Term{fmt.Sprintf("(exists ((ei! Int)) (and (<= 0 ei!) (< ei! %s) (= (select %s (+ %s ei!)) %s)))", slen(x.T).S, arr.S, soff(x.T).S, q.S), SBool}
					// explicit instances at the program's index terms (each implies the
					// existential, so the disjunction is equivalent; solvers rarely find them)
					alts := []Term{ex}
					for i, t := range w.indexTerms {
						if i >= 6 {
							break
						}
						alts = append(alts, and(le(intLit(0), t), lt(t, slen(x.T)), eq(sel(arr, add(soff(x.T), t)), q)))
					}
					return or(alts...)
				}}}
			case "whole":
				// whole(T.f): the field of every object
				inner := w.modTarget(env, e.Args[1])
				for i := range inner {
					inner[i].whole = true
				}
				return inner
			case "global":
				if id := e.Args[1]; id.Op == "id" && env.pkg != nil {
					if sp := w.l.Prog.Package(env.pkg); sp != nil {
						if g, ok := sp.Members[id.Name].(*ssa.Global); ok {
							return []modTarget{{key: w.globalKey(g), whole: true}}
						}
					}
				}
			}
		}
	}
	unsupported("modifies target %v not understood", exprString(e))
	return nil
}

// havocForContract forgets what the callee may change: the locations of its
// modifies clause, and objects it allocates (their fields are constrained
// only by the postcondition).
func (w *World) havocForContract(st, pre *State, ct *Contract, vars map[string]*Val, pkg *types.Package) {
	env := &CEnv{w: w, pkg: pkg, vars: vars, cur: pre, old: pre, lets: ct.Lets}
	targets := w.modTargets(env, ct)
	byKey := map[string][]modTarget{}
	var order []string
	for _, t := range targets {
		if _, ok := byKey[t.key]; !ok {
			order = append(order, t.key)
		}
		byKey[t.key] = append(byKey[t.key], t)
	}
	// keys the postcondition reads in the post-state for objects that may
	// be fresh
	for _, k := range w.postReadKeys(ct, vars, pkg) {
		if _, ok := byKey[k]; !ok && !strings.HasPrefix(k, "G!") && !strings.HasPrefix(k, "Glob!") {
			order = append(order, k)
			byKey[k] = nil
		}
	}
	oldAlloc := w.hget(st, allocKey)
	na := w.sc.fresh("$alloc~", SInt)
	w.sc.assume(le(oldAlloc, na))
	for _, k := range order {
		ts := byKey[k]
		whole := false
		for _, t := range ts {
			if t.whole {
				whole = true
			}
		}
		old := w.hget(st, k)
		nw := w.freshHeap(k, na)
		st.heap[k] = nw
		if whole {
			continue
		}
		idxSort, _, isArr := arrayParts(w.heapSort[k])
		if !isArr {
			continue
		}
		q := Term{"fr!", idxSort}
		var except []Term
		for _, t := range ts {
			if t.member != nil {
				except = append(except, t.member(q))
			} else {
				except = append(except, eq(q, t.idx))
			}
		}
		guard := not(or(except...))
		if idxSort == SInt && !strings.HasPrefix(k, "G!") {
			guard = and(le(q, oldAlloc), guard)
		}
		w.sc.assume(Term{fmt.Sprintf("(forall ((fr! %s)) (! (=> %s (= (select %s fr!) (select %s fr!))) :pattern ((select %s fr!))))", idxSort, guard.S, nw.S, old.S, nw.S), SBool})
	}
	st.heap[allocKey] = na
}

// postReadKeys lists the heap keys the ensures clauses of ct read in the
// post-state at an index that depends on the result (i.e. of objects that may
// be freshly allocated by the callee). Dry run.
func (w *World) postReadKeys(ct *Contract, vars map[string]*Val, pkg *types.Package) []string {
	saved := w.sc
	w.sc = newScript()
	for k, v := range saved.declared {
		w.sc.declared[k] = v
	}
	defer func() { w.sc = saved }()
	dry := &State{cond: tTrue, heap: map[string]Term{}, cells: map[cellID]Term{}, epoch: -1}
	dryOld := &State{cond: tTrue, heap: map[string]Term{}, cells: map[cellID]Term{}, epoch: -2}
	env := &CEnv{w: w, pkg: pkg, vars: vars, cur: dry, old: dryOld, lets: ct.Lets, reads: map[string]bool{}, readIdx: map[string][]string{}}
	for _, en := range ct.Ensures {
		func() {
			defer func() {
				if r := recover(); r != nil {
					if _, ok := r.(unsupportedErr); ok {
						return
					}
					panic(r)
				}
			}()
			w.evalBool(env, en.Expr)
		}()
	}
	var resSyms []string
	for _, n := range []string{"result", "result0", "result1", "result2"} {
		if v, ok := vars[n]; ok && v.T.S != "" {
			resSyms = append(resSyms, v.T.S)
		}
	}
	var keys []string
	for k, idxs := range env.readIdx {
		if k == allocKey {
			continue
		}
		dep := false
		for _, ix := range idxs {
			for _, rs := range resSyms {
				if strings.Contains(ix, rs) {
					dep = true
				}
			}
			// quantified reads may range over fresh objects too
			if strings.Contains(ix, "q!") {
				dep = true
			}
		}
		if dep {
			keys = append(keys, k)
		}
	}
	sortStrings(keys)
	return keys
}

// contractKeys lists the heap keys a contract may modify (used when a call
// occurs inside a loop).
// contractKeySets is contractKeys split into the keys of the modifies clause
// and the keys the postcondition reads of (possibly fresh) objects.
func (w *World) contractKeySets(ct *Contract, callee *ssa.Function) (mod, post []string, ok bool) {
	all := w.contractKeys(ct, callee)
	saved := w.sc
	w.sc = newScript()
	vars := map[string]*Val{}
	if callee != nil {
		names := ct.Params
		if len(names) == 0 {
			for _, p := range callee.Params {
				names = append(names, p.Name())
			}
		}
		for i, p := range callee.Params {
			if i < len(names) {
				vars[names[i]] = &Val{T: Term{"dummy!" + names[i], w.sortOf(p.Type())}, Typ: p.Type()}
			}
		}
	}
	dry := &State{cond: tTrue, heap: map[string]Term{}, cells: map[cellID]Term{}, epoch: -1}
	env := &CEnv{w: w, pkg: contractPkg(w, ct, callee), vars: vars, cur: dry, old: dry, lets: ct.Lets}
	set := map[string]bool{}
	ok = true
	func() {
		defer func() {
			if r := recover(); r != nil {
				if _, isU := r.(unsupportedErr); !isU {
					panic(r)
				}
				ok = false
			}
		}()
		for _, t := range w.modTargets(env, ct) {
			set[t.key] = true
		}
	}()
	w.sc = saved
	for _, k := range all {
		if set[k] {
			mod = append(mod, k)
		} else {
			post = append(post, k)
		}
	}
	return
}

func (w *World) contractKeys(ct *Contract, callee *ssa.Function) []string {
	if ct.ModNone || (!ct.ModStated && ct.Kind != "func") {
		if len(ct.Ensures) == 0 {
			return nil
		}
	}
	vars := map[string]*Val{}
	var sig *types.Signature
	if callee != nil {
		sig = callee.Signature
		names := ct.Params
		if len(names) == 0 {
			for _, p := range callee.Params {
				names = append(names, p.Name())
			}
		}
		for i, p := range callee.Params {
			if i < len(names) {
				vars[names[i]] = &Val{T: Term{"dummy!" + names[i], w.sortOf(p.Type())}, Typ: p.Type()}
			}
		}
	}
	if sig != nil {
		res := sig.Results()
		if res.Len() == 1 {
			vars["result"] = &Val{T: Term{"dummy!result", w.sortOf(res.At(0).Type())}, Typ: res.At(0).Type()}
		}
	}
	pkg := contractPkg(w, ct, callee)
	saved := w.sc
	w.sc = newScript()
	defer func() { w.sc = saved }()
	dry := &State{cond: tTrue, heap: map[string]Term{}, cells: map[cellID]Term{}, epoch: -1}
	env := &CEnv{w: w, pkg: pkg, vars: vars, cur: dry, old: dry, lets: ct.Lets}
	set := map[string]bool{}
	func() {
		defer func() {
			if r := recover(); r != nil {
				if _, ok := r.(unsupportedErr); !ok {
					panic(r)
				}
			}
		}()
		for _, t := range w.modTargets(env, ct) {
			set[t.key] = true
		}
	}()
	w.sc = saved
	for _, k := range w.postReadKeys(ct, vars, pkg) {
		if !strings.HasPrefix(k, "Glob!") {
			set[k] = true
		}
	}
	var keys []string
	for k := range set {
		keys = append(keys, k)
	}
	sortStrings(keys)
	return keys
}

// ---------------------------------------------------------------------
// Builtins

func (w *World) execBuiltin(fr *Frame, st *State, b *ssa.Builtin, c *ssa.CallCommon, pre []*Val) *Val {
	arg := func(i int) *Val {
		if pre != nil {
			return pre[i]
		}
		return w.val(fr, st, c.Args[i])
	}
	switch b.Name() {
	case "ssa:deferstack":
		return &Val{T: intLit(0), Typ: c.Signature().Results().At(0).Type()}
	case "len":
		x := arg(0)
		switch t := c.Args[0].Type().Underlying().(type) {
		case *types.Basic:
			return &Val{T: mk(SInt, "str.len", x.T), Typ: types.Typ[types.Int]}
		case *types.Slice:
			return &Val{T: slen(x.T), Typ: types.Typ[types.Int]}
		case *types.Map:
			return &Val{T: w.sc.define("maplen", ite(eq(x.T, intLit(0)), intLit(0), sel(w.hget(st, "MapLen"), x.T))), Typ: types.Typ[types.Int]}
		case *types.Array:
			return &Val{T: intLit(t.Len()), Typ: types.Typ[types.Int]}
		case *types.Pointer:
			return &Val{T: intLit(t.Elem().Underlying().(*types.Array).Len()), Typ: types.Typ[types.Int]}
		}
	case "cap":
		x := arg(0)
		if _, ok := c.Args[0].Type().Underlying().(*types.Slice); ok {
			return &Val{T: scap(x.T), Typ: types.Typ[types.Int]}
		}
	case "append":
		return w.execAppend(fr, st, c, arg(0), arg(1))
	case "copy":
		return w.execCopy(fr, st, c, arg(0), arg(1))
	case "delete":
		m, k := arg(0), arg(1)
		mt := c.Args[0].Type().Underlying().(*types.Map)
		ks, vs := w.sortOf(mt.Key()), w.sortOf(mt.Elem())
		dk, _ := w.mapKeys(ks, vs)
		dom := sel(w.hget(st, dk), m.T)
		had := sel(dom, k.T)
		ml := w.hget(st, "MapLen")
		w.hset(st, "MapLen", store(ml, m.T, ite(had, sub(sel(ml, m.T), intLit(1)), sel(ml, m.T))))
		w.hset(st, dk, store(w.hget(st, dk), m.T, store(dom, k.T, tFalse)))
		return &Val{Typ: c.Signature().Results()}
	case "print", "println":
		return &Val{Typ: c.Signature().Results()}
	case "min", "max":
		x, y := arg(0), arg(1)
		if b.Name() == "min" {
			return &Val{T: ite(le(x.T, y.T), x.T, y.T), Typ: x.Typ}
		}
		return &Val{T: ite(le(x.T, y.T), y.T, x.T), Typ: x.Typ}
	case "recover":
		unsupported("recover in %s", fr.fn.Name())
	case "ssa:wrapnilchk":
		return arg(0)
	}
	unsupported("builtin %s in %s", b.Name(), fr.fn.Name())
	return nil
}

func (w *World) maplenWF(st *State, m Term) {
	w.sc.assume(implies(st.cond, le(intLit(0), sel(w.hget(st, "MapLen"), m))))
}

// execAppend models append faithfully: in place when capacity allows,
// otherwise into a fresh backing array.
func (w *World) execAppend(fr *Frame, st *State, c *ssa.CallCommon, s, t *Val) *Val {
	sliceT := c.Args[0].Type().Underlying().(*types.Slice)
	es := w.sortOf(sliceT.Elem())
	if _, isStr := c.Args[1].Type().Underlying().(*types.Basic); isStr {
		unsupported("append of string to []byte in %s", fr.fn.Name())
	}
	key := w.elemsKeyT(sliceT.Elem())
	E := w.hget(st, key)
	n1 := w.sc.bind("app.n1", slen(s.T))
	n2 := w.sc.bind("app.n2", slen(t.T))
	total := w.sc.bind("app.len", add(n1, n2))
	inplace := w.sc.bind("app.inplace", and(le(total, scap(s.T)), not(eq(sarr(s.T), intLit(0)))))
	r := w.newRef(st)
	target := w.sc.bind("app.arr", ite(inplace, sarr(s.T), r))
	tb := w.sc.bind("app.off", ite(inplace, soff(s.T), intLit(0)))
	newCap := w.sc.fresh("app.cap", SInt)
	w.sc.assume(le(total, newCap))
	srcArr := w.sc.bind("app.src", sel(E, sarr(s.T)))
	tArr := w.sc.bind("app.add", sel(E, sarr(t.T)))
	sOff := w.sc.bind("app.soff", soff(s.T))
	tOff := w.sc.bind("app.toff", soff(t.T))
	na := w.sc.fresh("app.elems", arraySort(SInt, es))
	// elements of s are preserved (in place: the whole old array outside the
	// appended range is unchanged)
	w.sc.assume(implies(st.cond, Term{fmt.Sprintf("(forall ((aj! Int)) (! (=> (and (<= %s aj!) (< aj! (+ %s %s))) (= (select %s aj!) (select %s (+ (- aj! %s) %s)))) :pattern ((select %s aj!))))",
		tb.S, tb.S, n1.S, na.S, srcArr.S, tb.S, sOff.S, na.S), SBool}))
	w.sc.assume(implies(and(st.cond, inplace), Term{fmt.Sprintf("(forall ((aj! Int)) (! (=> (or (< aj! (+ %s %s)) (>= aj! (+ %s %s))) (= (select %s aj!) (select %s aj!))) :pattern ((select %s aj!))))",
		tb.S, n1.S, tb.S, total.S, na.S, srcArr.S, na.S), SBool}))
	{
		// the same preservation fact by relative position, for explicit instantiation at the positions a proof talks about
		cond, n1c, nac, tbc, srcc, sOffc, totc, tArrc, tOffc := st.cond, n1, na, tb, srcArr, sOff, total, tArr, tOff
		w.rawFacts = append(w.rawFacts, rawFact{guard: cond, inst: func(j Term) Term {
			// position j of the result: an element of s, or (from n1 on) an element of the appended slice
			return and(implies(and(le(intLit(0), j), lt(j, n1c)), eq(sel(nac, add(tbc, j)), sel(srcc, add(sOffc, j)))),
				implies(and(le(n1c, j), lt(j, totc)), eq(sel(nac, add(tbc, j)), sel(tArrc, add(tOffc, sub(j, n1c))))))
		}})
	}
	if t.ConstLen > 0 && t.ConstLen <= 8 {
		for i := 0; i < t.ConstLen; i++ {
			w.sc.assume(implies(st.cond, eq(sel(na, add(add(tb, n1), intLit(int64(i)))), sel(tArr, add(tOff, intLit(int64(i)))))))
		}
	} else {
		w.sc.assume(implies(st.cond, Term{fmt.Sprintf("(forall ((aj! Int)) (! (=> (and (<= (+ %s %s) aj!) (< aj! (+ %s %s))) (= (select %s aj!) (select %s (+ (- aj! (+ %s %s)) %s)))) :pattern ((select %s aj!))))",
			tb.S, n1.S, tb.S, total.S, na.S, tArr.S, tb.S, n1.S, tOff.S, na.S), SBool}))
	}
	// inside a loop of the function under contract the loop frame may rely on
	// in-place appends writing only arrays allocated since function entry
	w.loopWriteCheckIf(fr, st, key, sarr(s.T), and(inplace, not(eq(n2, intLit(0)))))
	w.hset(st, key, store(E, target, na))
	res := mk(SSlice, "mkSlice", target, tb, total, ite(inplace, scap(s.T), newCap))
	// append(s) with nothing to add returns s itself
	out := w.sc.define("app", ite(eq(n2, intLit(0)), s.T, res))
	w.assumption("append reallocates exactly when the capacity is exceeded; the new capacity is arbitrary")
	return &Val{T: out, Typ: c.Args[0].Type()}
}

func (w *World) execCopy(fr *Frame, st *State, c *ssa.CallCommon, d, s *Val) *Val {
	sliceT := c.Args[0].Type().Underlying().(*types.Slice)
	if _, isStr := c.Args[1].Type().Underlying().(*types.Basic); isStr {
		unsupported("copy from string in %s", fr.fn.Name())
	}
	es := w.sortOf(sliceT.Elem())
	key := w.elemsKeyT(sliceT.Elem())
	E := w.hget(st, key)
	n := w.sc.bind("copy.n", ite(le(slen(d.T), slen(s.T)), slen(d.T), slen(s.T)))
	dArr := w.sc.bind("copy.dst", sel(E, sarr(d.T)))
	sArr := w.sc.bind("copy.src", sel(E, sarr(s.T)))
	dOff := w.sc.bind("copy.doff", soff(d.T))
	sOff := w.sc.bind("copy.soff", soff(s.T))
	na := w.sc.fresh("copy.elems", arraySort(SInt, es))
	w.sc.assume(implies(st.cond, Term{fmt.Sprintf("(forall ((cj! Int)) (! (=> (and (<= %s cj!) (< cj! (+ %s %s))) (= (select %s cj!) (select %s (+ (- cj! %s) %s)))) :pattern ((select %s cj!))))",
		dOff.S, dOff.S, n.S, na.S, sArr.S, dOff.S, sOff.S, na.S), SBool}))
	w.sc.assume(implies(st.cond, Term{fmt.Sprintf("(forall ((cj! Int)) (! (=> (or (< cj! %s) (>= cj! (+ %s %s))) (= (select %s cj!) (select %s cj!))) :pattern ((select %s cj!))))",
		dOff.S, dOff.S, n.S, na.S, dArr.S, na.S), SBool}))
	w.hset(st, key, store(E, sarr(d.T), na))
	w.assumption("copy between overlapping slices is not modelled (source read before the call)")
	return &Val{T: n, Typ: types.Typ[types.Int]}
}

// safetyPreSkipped: the helper preconditions of a callee verified under `opt safety full` (non-nil receivers and
// arguments, well-formedness of the model) are what rules out its implicit panics. A caller that is itself under
// `opt safety full` must establish them; for any other caller the absence of implicit panics is the standing
// assumption, so they are not asked of it.
func (w *World) safetyPreSkipped(ct *Contract, rq *Clause) bool {
	if rq.Star || ct.Opts["safety"] != "full" {
		return false
	}
	if w.topContract != nil && w.topContract.Opts["safety"] == "full" {
		return false
	}
	w.assumption("implicit run-time panics (nil dereference, index, failed type assertion) do not occur in functions without 'opt safety on'")
	return true
}
