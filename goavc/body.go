package main

import (
	"time"
	"fmt"
	"go/token"
	"go/types"
	"os"
	"sort"
	"strings"

	"golang.org/x/tools/go/ssa"
)

type inEdge struct {
	from *ssa.BasicBlock
	st   *State
}

func (w *World) newFrame(fn *ssa.Function, depth int) *Frame {
	w.frameN++
	return &Frame{id: w.frameN, fn: fn, vals: map[ssa.Value]*Val{}, deferSt: map[*ssa.Defer][]*Val{}, params: map[string]*Val{}, depth: depth}
}

// execBody symbolically executes the body of fr.fn from st0 and returns the
// state and result values at the (merged) normal exit; nil if no return is
// reachable.
func (w *World) execBody(fr *Frame, st0 *State) (*State, []*Val) {
	fn := fr.fn
	if fn.Blocks == nil {
		unsupported("function %s has no body", fn.Name())
	}
	if fn.Recover != nil {
		// recover blocks exist for every function with defers; we only
		// reject explicit recover() calls (see execBuiltin)
	}
	li := analyzeLoops(fn)
	fr.loops = li
	incoming := map[*ssa.BasicBlock][]inEdge{}
	incoming[fn.Blocks[0]] = []inEdge{{nil, st0}}
	w.runBlocks(fr, incoming, nil)
	if len(fr.returns) == 0 {
		return nil, nil
	}
	if len(fr.returns) == 1 {
		return fr.returns[0].st, fr.returns[0].vals
	}
	var sts []*State
	var conds []Term
	for _, r := range fr.returns {
		sts = append(sts, r.st)
		conds = append(conds, r.st.cond)
	}
	out := w.mergeStates(fn.Name()+".exit", sts)
	n := len(fr.returns[0].vals)
	var res []*Val
	for i := 0; i < n; i++ {
		var vals []Term
		for _, r := range fr.returns {
			if r.vals[i].T.S == "" {
				unsupported("address-only result in %s", fn.Name())
			}
			vals = append(vals, r.vals[i].T)
		}
		res = append(res, &Val{T: w.sc.define(fn.Name()+".result", iteChain(conds, vals)), Typ: fr.returns[0].vals[i].Typ})
	}
	return out, res
}

// region restricts block execution to the body of one loop (used to execute
// a loop body as a state transformer for the determinism check).
type region struct {
	header     *ssa.BasicBlock
	in         map[*ssa.BasicBlock]bool
	backStates []*State
	backIns    []inEdge
	exits      []exitEdge
	escaped    int
	unroll     bool
}

type exitEdge struct {
	from, to *ssa.BasicBlock
	st       *State
}

// runBlocks executes the blocks of fr.fn in topological order (back edges
// cut) from the given incoming states.
func (w *World) runBlocks(fr *Frame, incoming map[*ssa.BasicBlock][]inEdge, rg *region) {
	fn := fr.fn
	li := fr.loops
	for _, b := range li.order {
		if rg != nil && !rg.in[b] {
			continue
		}
		if !w.deadline.IsZero() && time.Now().After(w.deadline) {
			unsupported("generation budget exceeded in %s (the unrolled body is too large)", fn.Name())
		}
		ins := incoming[b]
		if len(ins) == 0 {
			continue
		}
		// order incoming edges as b.Preds for phis
		sort.SliceStable(ins, func(i, j int) bool { return predIndex(b, ins[i].from) < predIndex(b, ins[j].from) })
		var st *State
		if len(ins) == 1 {
			st = ins[0].st
		} else {
			var sts []*State
			for _, e := range ins {
				sts = append(sts, e.st)
			}
			st = w.mergeStates(fmt.Sprintf("%s.%d", fn.Name(), b.Index), sts)
		}
		// phis
		for _, instr := range b.Instrs {
			phi, ok := instr.(*ssa.Phi)
			if !ok {
				break
			}
			var conds, vals []Term
			var only *Val
			for _, e := range ins {
				pi := predIndex(b, e.from)
				v := w.val(fr, e.st, phi.Edges[pi])
				if v.T.S == "" {
					unsupported("phi of address-only values in %s", fn.Name())
				}
				conds = append(conds, e.st.cond)
				vals = append(vals, v.T)
				only = v
			}
			if len(vals) == 1 {
				fr.vals[phi] = only
			} else {
				fr.vals[phi] = &Val{T: w.sc.define(fn.Name()+"."+phi.Name(), iteChain(conds, vals)), Typ: phi.Type()}
			}
		}
		if k := li.isHeader[b]; k > 0 {
			switch {
			case rg != nil && b == rg.header:
				// the region's own loop: executing one iteration
				if rg.unroll {
					w.unrollArrival(fr, st, k)
				}
			case w.unrollN > 0:
				w.unrollLoop(fr, ins, b, k, incoming, rg)
				continue
			case rg != nil:
				unsupported("nested loop inside a loop declared deterministic in %s", fn.Name())
			default:
				w.loopHead(fr, st, b, k)
			}
		}
		for _, instr := range b.Instrs {
			switch t := instr.(type) {
			case *ssa.Phi:
				continue
			case *ssa.If:
				c := w.term(fr, st, t.Cond)
				thenSt, elseSt := st.clone(), st.clone()
				thenSt.cond = w.sc.define("pc", and(st.cond, c))
				elseSt.cond = w.sc.define("pc", and(st.cond, not(c)))
				w.pushEdge(fr, incoming, b, b.Succs[0], thenSt, rg)
				w.pushEdge(fr, incoming, b, b.Succs[1], elseSt, rg)
			case *ssa.Jump:
				w.pushEdge(fr, incoming, b, b.Succs[0], st, rg)
			case *ssa.Return:
				var vals []*Val
				for _, r := range t.Results {
					vals = append(vals, w.val(fr, st, r))
				}
				fr.returns = append(fr.returns, retPoint{st.clone(), vals})
			case *ssa.Panic:
				if fr.top && fr.contract != nil && (fr.contract.Opts["safety"] == "on" || fr.contract.Opts["nopanic"] == "on") {
					w.callOrd["panic"]++
					var allowed []Term
					for _, pc := range fr.contract.Panics {
						env := w.contractEnv(fr, st, fr.entry)
						allowed = append(allowed, w.evalBool(env, pc.Expr))
					}
					w.oblige("nopanic", fmt.Sprintf("nopanic.explicit.%d", w.callOrd["panic"]), st.cond, or(allowed...), false, fr.contract.Props)
				}
				// path ends (partial correctness)
			default:
				if fr.top {
					w.curBlock = b
				}
				w.execInstr(fr, st, instr)
			}
		}
	}
}

func predIndex(b, from *ssa.BasicBlock) int {
	for i, p := range b.Preds {
		if p == from {
			return i
		}
	}
	return -1
}

func (w *World) pushEdge(fr *Frame, incoming map[*ssa.BasicBlock][]inEdge, from, to *ssa.BasicBlock, st *State, rg *region) {
	if st.cond.S == "false" {
		return
	}
	if rg != nil {
		if to == rg.header && fr.loops.backEdge[[2]*ssa.BasicBlock{from, to}] {
			rg.backStates = append(rg.backStates, st)
			rg.backIns = append(rg.backIns, inEdge{from, st})
			return
		}
		if !rg.in[to] {
			rg.escaped++
			rg.exits = append(rg.exits, exitEdge{from, to, st})
			return
		}
	}
	if fr.loops.backEdge[[2]*ssa.BasicBlock{from, to}] {
		k := fr.loops.isHeader[to]
		w.loopStep(fr, st, to, k)
		return
	}
	incoming[to] = append(incoming[to], inEdge{from, st})
}

func (w *World) loopSpec(fr *Frame, k int) *LoopSpec {
	if fr.contract != nil {
		if ls := fr.contract.Loops[k]; ls != nil {
			return ls
		}
	}
	return &LoopSpec{}
}

func (w *World) loopHead(fr *Frame, st *State, h *ssa.BasicBlock, k int) {
	ls := w.loopSpec(fr, k)
	props := []string{}
	if fr.contract != nil {
		props = fr.contract.Props
	}
	if fr.top {
		for _, inv := range ls.Invariants {
			if w.skipClause[inv] {
				continue
			}
			env := w.contractEnv(fr, st, fr.entry)
			w.oblige("loop.init", fmt.Sprintf("loop%d.init.%s", k, inv.Label), st.cond, w.hintGoal(inv, env), inv.Star, props)
		}
	}
	if fr.top && fr.contract != nil && fr.contract.Opts["forget-before-loop"] == fmt.Sprint(k) {
		// proof slice: what was learnt before this loop head is not used for the obligations generated from
		// here on (sound: fewer hypotheses); keeps the queries of a long function small
		w.forgetMark = w.sc.mark()
		w.quantFacts = nil
		w.rawFacts = nil
	}
	// a counted loop "for i := e; i < len(S); i++" whose variable is only ever incremented: i never drops below
	// its value on entry (what a range loop's hidden index gets for free)
	var monoCell *ssa.Alloc
	var monoFloor Term
	if a, _ := countedLoop(h); a != nil && !a.Heap && monotoneIn(a, fr.loops.body[h]) {
		if cur, live := st.cells[cellID{fr.id, a}]; live {
			monoCell, monoFloor = a, cur
		}
	}
	defer func() {
		if monoCell != nil {
			if cur, live := st.cells[cellID{fr.id, monoCell}]; live {
				w.sc.assume(implies(st.cond, le(monoFloor, cur)))
			}
		}
	}()
	// havoc what the loop may write
	cells, keys, all := w.loopWrites(fr, fr.loops.body[h])
	if fr.top && fr.contract != nil && fr.contract.Opts["loopframes"] == "none" {
		// nothing is claimed about what the loops leave unchanged: every loop head forgets the whole heap
		all = true
	}
	if all {
		keep := map[string]Term{}
		framed := map[string]Term{}
		written := map[string]bool{}
		for _, k := range keys {
			// a key that the loop touches only by allocating fresh objects is not "written" for
			// objects that existed at the loop head
			if !(w.loopFreshAlloc[k] && !w.loopWhole[k] && len(w.loopTargets[k]) == 0 && !w.loopFreshOnly[k]) {
				written[k] = true
			}
		}
		consider := func(k string) {
			if written[k] {
				return
			}
			if w.loopFreshAlloc[k] {
				framed[k] = w.hget(st, k)
			} else {
				keep[k] = w.hget(st, k)
			}
		}
		for k := range w.loopPreserved {
			consider(k)
		}
		if fr.top && fr.contract != nil && len(fr.contract.UnknownPreserve) > 0 {
			env := w.contractEnv(fr, st, fr.entry)
			for _, pe := range fr.contract.UnknownPreserve {
				for _, k := range w.preservedKeys(env, pe) {
					consider(k)
				}
			}
		}
		oaAll := w.hget(st, allocKey)
		w.havocAll(st)
		for k, v := range keep {
			st.heap[k] = v
		}
		for k, prev := range framed {
			idxSort, _, isArr := arrayParts(w.heapSort[k])
			if !isArr || idxSort != SInt {
				continue
			}
			nw := w.havocKey(st, k)
			w.sc.assume(Term{fmt.Sprintf("(forall ((lf! Int)) (! (=> (<= lf! %s) (= (select %s lf!) (select %s lf!))) :pattern ((select %s lf!))))", oaAll.S, nw.S, prev.S, nw.S), SBool})
		}
	} else {
		oa := w.hget(st, allocKey)
		na := w.sc.fresh("$alloc~", SInt)
		st.heap[allocKey] = na
		w.sc.assume(le(oa, na))
		inLoop := map[*ssa.BasicBlock]bool{}
		for _, b := range fr.loops.body[h] {
			inLoop[b] = true
		}
		assigned := map[cellID]bool{}
		for _, c := range cells {
			assigned[c] = true
		}
		w.curLoopKeys = map[string]bool{}
		for _, k := range keys {
			w.curLoopKeys[k] = true
		}
		callTargets := w.resolveLoopCallTargets(fr, st, keys, inLoop, assigned)
		for _, key := range keys {
			if _, ok := w.heapSort[key]; !ok {
				continue
			}
			idxSort, _, isArr := arrayParts(w.heapSort[key])
			declaredWhole := false
			for _, m := range ls.Modifies {
				if e, err := parseCExpr(m); err == nil && (e.Op == "call" || e.Op == "sel") {
					func() {
						defer func() { recover() }()
						for _, k := range w.preservedKeys(w.contractEnv(fr, st, fr.entry), e) {
							if k == key {
								declaredWhole = true
							}
						}
					}()
				}
			}
			// in an inlined callee the writes of a loop are not checked against a policy: the keys it writes are forgotten whole
			precise := fr.top && isArr && idxSort == SInt && !w.loopWhole[key] && !declaredWhole
			freshOnly := w.loopFreshOnly[key]
			var targets []Term
			if precise {
				for _, lt := range w.loopTargets[key] {
					t, ok := w.loopInvariantTerm(fr, st, lt.v, inLoop, assigned)
					if !ok {
						// a target that changes inside the loop: writes to it are
						// checked (obligation) to hit objects allocated since
						// function entry only
						freshOnly = true
						continue
					}
					if lt.viaSlice {
						t = sarr(t)
					}
					targets = append(targets, t)
				}
				targets = append(targets, callTargets[key]...)
			}
			if fr.top {
				if fr.loopPolicy == nil {
					fr.loopPolicy = map[*ssa.BasicBlock]map[string]*loopKeyPolicy{}
				}
				if fr.loopPolicy[h] == nil {
					fr.loopPolicy[h] = map[string]*loopKeyPolicy{}
				}
				fr.loopPolicy[h][key] = &loopKeyPolicy{precise: precise, freshOnly: freshOnly, targets: targets, headAlloc: oa}
			}
			if os.Getenv("GOAVC_DEBUG") != "" {
				fmt.Fprintf(os.Stderr, "loop %d of %s: havoc %s precise=%v whole=%v freshOnly=%v targets=%d\n", k, fr.fn.Name(), key, precise, w.loopWhole[key], freshOnly, len(w.loopTargets[key]))
			}
			prev := w.hget(st, key)
			nw := w.havocKey(st, key)
			if precise {
				var except []Term
				q := Term{"lf!", SInt}
				for _, t := range targets {
					except = append(except, eq(q, t))
				}
				bound := oa
				if freshOnly {
					// in-place appends inside the loop may write arrays allocated after function entry only (checked)
					bound = w.hget(fr.entry, allocKey)
				}
				guard := and(le(q, bound), not(or(except...)))
				w.sc.assume(Term{fmt.Sprintf("(forall ((lf! Int)) (! (=> %s (= (select %s lf!) (select %s lf!))) :pattern ((select %s lf!))))", guard.S, nw.S, prev.S, nw.S), SBool})
			}
		}
		for _, key := range ls.Modifies {
			if gk, ok := w.ghostKey(key); ok {
				w.havocKey(st, gk)
			}
		}
	}
	for _, c := range cells {
		if _, live := st.cells[c]; live {
			nv := w.sc.fresh("c."+c.alloc.Comment+"~", w.sortOf(deref(c.alloc.Type())))
			st.cells[c] = nv
			w.assumeLoaded(st, &Val{T: nv, Typ: deref(c.alloc.Type())})
		}
	}
	// compiler-generated range-over-slice loops: the hidden index satisfies
	// -1 <= index <= len-1 at the head by construction (starts at -1, is
	// incremented only after the test index+1 < len)
	if h.Comment == "rangeindex.loop" {
		for _, ins := range h.Instrs {
			if cmp, ok := ins.(*ssa.BinOp); ok && cmp.Op == token.LSS {
				if inc, ok := cmp.X.(*ssa.BinOp); ok && inc.Op == token.ADD {
					if ld, ok := inc.X.(*ssa.UnOp); ok {
						if a, ok := ld.X.(*ssa.Alloc); ok && a.Comment == "rangeindex" {
							if cur, live := st.cells[cellID{fr.id, a}]; live {
								if lv, ok := fr.vals[cmp.Y]; ok && lv.T.S != "" {
									w.sc.assume(implies(st.cond, and(le(intLit(-1), cur), lt(cur, ite(le(intLit(0), lv.T), lv.T, intLit(0))))))
									if lv.T.S != "" {
										w.sc.assume(implies(st.cond, or(le(intLit(0), lv.T), eq(cur, intLit(-1)))))
									}
								}
							}
						}
					}
				}
			}
		}
	}
	for _, inv := range ls.Invariants {
		if w.skipClause[inv] {
			continue
		}
		env := w.contractEnv(fr, st, fr.entry)
		w.hintEval(inv, func() { w.sc.assume(implies(st.cond, w.evalBool(env.assuming(), inv.Expr))) })
		w.noteQuantFacts(st.cond, env, inv.Expr)
	}
	if fr.loopHeads == nil {
		fr.loopHeads = map[int]*State{}
	}
	fr.loopHeads[k] = st.clone()
	if ls.Deterministic && fr.top {
		w.loopDeterminism(fr, st, h, k, ls, cells, keys)
	} else if fr.top && fr.contract != nil && fr.contract.Opts["maprange"] == "deterministic" {
		// every range over a map in this function must be order independent
		for _, ins := range h.Instrs {
			if n, ok := ins.(*ssa.Next); ok {
				if rg, ok := n.Iter.(*ssa.Range); ok {
					if _, isMap := rg.X.Type().Underlying().(*types.Map); isMap {
						w.loopDeterminism(fr, st, h, k, &LoopSpec{Deterministic: true, DetStar: true}, cells, keys)
					}
				}
			}
		}
	}
}

// loopDeterminism generates the commutativity obligation of a range-over-map
// loop: from an arbitrary loop state, running the body for two distinct keys
// in either order leaves every location the loop writes with the same value.
func (w *World) loopDeterminism(fr *Frame, st *State, h *ssa.BasicBlock, k int, ls *LoopSpec, cells []cellID, keys []string) {
	var next *ssa.Next
	for _, ins := range h.Instrs {
		if n, ok := ins.(*ssa.Next); ok {
			next = n
		}
	}
	props := ls.DetProps
	if len(props) == 0 {
		props = fr.contract.Props
	}
	label := fmt.Sprintf("loop%d.deterministic", k)
	rgI, _ := func() (*ssa.Range, bool) {
		if next == nil {
			return nil, false
		}
		r, ok := next.Iter.(*ssa.Range)
		return r, ok
	}()
	if next == nil || rgI == nil || w.ranges[rgI] == nil {
		o := w.oblige("loop.det", label, st.cond, tFalse, ls.DetStar, props)
		o.Result = &SolverResult{Status: "not-a-map-range", Output: "the loop declared deterministic is not a range over a map"}
		return
	}
	sl := collectThenSort(fr.fn, fr.loops.body[h], h)
	if os.Getenv("GOAVC_DEBUG") != "" {
		fmt.Fprintf(os.Stderr, "collect-then-sort loop %d of %s: %q\n", k, fr.fn.Name(), sl)
	}
	if sl != "" {
		// proof rule "collect, then sort": the loop only appends to one local slice, which is handed to
		// sort.Strings / sort.Slice / sort.Sort before anything else reads it: after the sort its contents do
		// not depend on the order of the iteration (assumed: the sort's result is a function of the elements)
		o := w.oblige("loop.det", label, st.cond, tTrue, ls.DetStar, props)
		o.Result = &SolverResult{Status: "unsat", Solver: "rule:collect-then-sort(" + sl + ")"}
		w.assumption("a slice filled by a range over a map and sorted before its first use does not depend on the iteration order (sort.Strings/sort.Slice with a strict order)")
		return
	}
	rs := w.ranges[rgI]
	ks, vs := w.sortOf(rs.mapT.Key()), w.sortOf(rs.mapT.Elem())
	dk, vk := w.mapKeys(ks, vs)
	k1, k2 := w.sc.fresh("det.k1", ks), w.sc.fresh("det.k2", ks)
	dom := sel(w.hget(st, dk), rs.m)
	pre := and(not(eq(k1, k2)), sel(dom, k1), sel(dom, k2), not(eq(rs.m, intLit(0))))
	inLoop := map[*ssa.BasicBlock]bool{}
	for _, b := range fr.loops.body[h] {
		inLoop[b] = true
	}
	tt := next.Type().(*types.Tuple)
	runOnce := func(s0 *State, key Term) *State {
		val := sel(sel(w.hget(s0, vk), rs.m), key)
		w.forcedNext = map[*ssa.Next]*Val{next: {Typ: next.Type(), Tuple: []*Val{{T: tTrue, Typ: types.Typ[types.Bool]}, {T: key, Typ: tt.At(1).Type()}, {T: w.sc.define("det.val", val), Typ: tt.At(2).Type()}}}}
		defer func() { w.forcedNext = nil }()
		rg := &region{header: h, in: inLoop}
		incoming := map[*ssa.BasicBlock][]inEdge{h: {{nil, s0.clone()}}}
		nret := len(fr.returns)
		w.runBlocks(fr, incoming, rg)
		if len(fr.returns) != nret || rg.escaped > 0 {
			fr.returns = fr.returns[:nret]
			unsupported("loop %d of %s is declared deterministic but can leave the loop from its body (break/return)", k, fr.fn.Name())
		}
		if len(rg.backStates) == 0 {
			unsupported("loop %d of %s: no path reaches the next iteration", k, fr.fn.Name())
		}
		out := w.mergeStates(fmt.Sprintf("%s.det%d", fr.fn.Name(), k), rg.backStates)
		out.cond = s0.cond
		return out
	}
	w.muted++
	saved := map[ssa.Value]*Val{}
	for v, x := range fr.vals {
		saved[v] = x
	}
	s12 := runOnce(runOnce(st, k1), k2)
	s21 := runOnce(runOnce(st, k2), k1)
	fr.vals = saved
	w.muted--
	var eqs []Term
	for _, c := range cells {
		a, ok1 := s12.cells[c]
		b, ok2 := s21.cells[c]
		if !ok1 || !ok2 {
			continue
		}
		if _, liveBefore := st.cells[c]; !liveBefore {
			continue // declared inside the body: dead across iterations
		}
		if c.alloc.Comment == "rangeindex" || isDeferStack(deref(c.alloc.Type())) {
			continue
		}
		eqs = append(eqs, eq(a, b))
	}
	for _, key := range keys {
		if strings.HasPrefix(key, "G!visited!") || key == allocKey {
			continue
		}
		if _, ok := w.heapSort[key]; !ok {
			continue
		}
		idxSort, _, isArr := arrayParts(w.heapSort[key])
		if isArr && idxSort == SInt && !strings.HasPrefix(key, "G!") {
			// objects that existed before the iterations (fresh temporaries differ harmlessly)
			r := w.sc.fresh("det.obj", SInt)
			eqs = append(eqs, implies(le(r, w.hget(st, allocKey)), eq(sel(w.hget(s12, key), r), sel(w.hget(s21, key), r))))
			continue
		}
		eqs = append(eqs, eq(w.hget(s12, key), w.hget(s21, key)))
	}
	w.oblige("loop.det", label, and(st.cond, pre), and(eqs...), ls.DetStar, props)
	w.assumption("determinism of a map range is the commutativity of its body on two distinct keys (pairwise commutativity implies order independence for the locations compared)")
}

// loopInvariantTerm resolves an SSA value used inside a loop to a term that
// denotes the same value at the loop head (when the value cannot change in
// the loop).
func (w *World) loopInvariantTerm(fr *Frame, st *State, v ssa.Value, inLoop map[*ssa.BasicBlock]bool, assigned map[cellID]bool) (Term, bool) {
	if a, ok := v.(*ssa.Alloc); ok && a.Heap && inLoop[a.Block()] {
		// allocated inside the loop: never an object that existed at the loop head
		return intLit(-1), true
	}
	switch x := v.(type) {
	case *ssa.Parameter, *ssa.FreeVar, *ssa.Const, *ssa.Function, *ssa.Global:
		if val, ok := fr.vals[v]; ok && val.T.S != "" {
			return val.T, true
		}
		if _, isConst := v.(*ssa.Const); isConst {
			return w.constVal(v.(*ssa.Const)).T, true
		}
		return Term{}, false
	case *ssa.UnOp:
		if x.Op == token.MUL {
			if a, ok := x.X.(*ssa.Alloc); ok && !a.Heap {
				id := cellID{fr.id, a}
				if cur, live := st.cells[id]; live && !assigned[id] {
					return cur, true
				}
			}
			// an escaping local (e.g. a parameter captured by a closure): its heap cell keeps its value
			// when nothing in the loop writes cells of that sort
			if a, ok := x.X.(*ssa.Alloc); ok && a.Heap && !inLoop[a.Block()] && w.curLoopKeys != nil {
				key := w.cellKey(w.sortOf(deref(a.Type())))
				if pv, ok := fr.vals[a]; ok && pv.T.S != "" && !w.curLoopKeys[key] {
					return sel(w.hget(st, key), pv.T), true
				}
			}
		}
	}
	if ins, ok := v.(ssa.Instruction); ok && ins.Block() != nil && !inLoop[ins.Block()] {
		if val, ok := fr.vals[v]; ok && val.T.S != "" {
			return val.T, true
		}
	}
	return Term{}, false
}

func (w *World) loopStep(fr *Frame, st *State, h *ssa.BasicBlock, k int) {
	if !fr.top {
		return
	}
	ls := w.loopSpec(fr, k)
	w.callOrd[fmt.Sprintf("loopstep:%d", k)]++
	ord := ""
	if n := w.callOrd[fmt.Sprintf("loopstep:%d", k)]; n > 1 {
		ord = fmt.Sprint(n)
	}
	for _, inv := range ls.Invariants {
		if w.skipClause[inv] {
			continue
		}
		env := w.contractEnv(fr, st, fr.entry)
		w.oblige("loop.step", fmt.Sprintf("loop%d.step%s.%s", k, ord, inv.Label), st.cond, w.hintGoal(inv, env), inv.Star, fr.contract.Props)
	}
	for _, rel := range ls.Steps {
		if w.skipClause[rel] {
			continue
		}
		env := w.contractEnv(fr, st, fr.entry)
		w.oblige("loop.rel", fmt.Sprintf("loop%d.rel%s.%s", k, ord, rel.Label), st.cond, w.hintGoal(rel, env), rel.Star, fr.contract.Props)
	}
}

// allocOf finds the local variable an address expression is rooted in.
func allocOf(v ssa.Value) *ssa.Alloc {
	for {
		switch x := v.(type) {
		case *ssa.Alloc:
			return x
		case *ssa.FieldAddr:
			v = x.X
		case *ssa.IndexAddr:
			if _, ok := x.X.Type().Underlying().(*types.Pointer); ok {
				v = x.X
			} else {
				return nil
			}
		default:
			return nil
		}
	}
}

// loopWrites over-approximates what a set of blocks may write.
func (w *World) loopWrites(fr *Frame, blocks []*ssa.BasicBlock) (cells []cellID, keys []string, all bool) {
	seenC := map[cellID]bool{}
	seenK := map[string]bool{}
	w.loopTargets = map[string][]loopTarget{}
	w.loopWhole = map[string]bool{}
	w.loopFreshOnly = map[string]bool{}
	w.loopKeysExtra = nil
	w.loopPreserved = nil
	w.loopFreshAlloc = map[string]bool{}
	w.loopCallSites = nil
	addKey := func(k string) {
		if !seenK[k] {
			seenK[k] = true
			keys = append(keys, k)
		}
		w.loopWhole[k] = true
	}
	// addAt records a write to key k at the object designated by v
	addAt := func(k string, v ssa.Value, viaSlice bool, top bool) {
		if !seenK[k] {
			seenK[k] = true
			keys = append(keys, k)
		}
		if !top {
			w.loopWhole[k] = true
			return
		}
		if a, ok := v.(*ssa.Alloc); ok && a.Heap {
			for _, b := range blocks {
				if a.Block() == b {
					// an object allocated inside the loop: fresh at every iteration
					w.loopFreshAlloc[k] = true
					return
				}
			}
		}
		w.loopTargets[k] = append(w.loopTargets[k], loopTarget{v, viaSlice})
	}
	addFresh := func(k string) {
		if !seenK[k] {
			seenK[k] = true
			keys = append(keys, k)
		}
		w.loopFreshAlloc[k] = true
	}
	var scan func(fn *ssa.Function, frameID int, blocks []*ssa.BasicBlock, depth int)
	scan = func(fn *ssa.Function, frameID int, blocks []*ssa.BasicBlock, depth int) {
		for _, b := range blocks {
			for _, instr := range b.Instrs {
				switch t := instr.(type) {
				case *ssa.Alloc:
					if !t.Heap && frameID == fr.id {
						id := cellID{frameID, t}
						if !seenC[id] {
							seenC[id] = true
							cells = append(cells, id)
						}
					}
					if t.Heap {
						w.addAllocKeys(deref(t.Type()), addFresh)
					}
				case *ssa.Store:
					if a := allocOf(t.Addr); a != nil && !a.Heap {
						if frameID == fr.id {
							id := cellID{frameID, a}
							if !seenC[id] {
								seenC[id] = true
								cells = append(cells, id)
							}
						}
						continue
					}
					w.addStoreTargets(t.Addr, addKey, func(k string, v ssa.Value, viaSlice bool) { addAt(k, v, viaSlice, frameID == fr.id) })
				case *ssa.MapUpdate:
					mt := t.Map.Type().Underlying().(*types.Map)
					dk, vk := w.mapKeys(w.sortOf(mt.Key()), w.sortOf(mt.Elem()))
					addAt(dk, t.Map, false, frameID == fr.id)
					addAt(vk, t.Map, false, frameID == fr.id)
					addAt("MapLen", t.Map, false, frameID == fr.id)
				case *ssa.MakeMap:
					mt := t.Type().Underlying().(*types.Map)
					dk, vk := w.mapKeys(w.sortOf(mt.Key()), w.sortOf(mt.Elem()))
					addFresh(dk)
					addFresh(vk)
					addFresh("MapLen")
				case *ssa.MakeSlice:
					addFresh(w.elemsKeyT(t.Type().Underlying().(*types.Slice).Elem()))
				case *ssa.Convert:
					if w.sortOf(t.Type()) == SSlice && w.sortOf(t.X.Type()) == SString {
						addKey(w.elemsKeyT(types.Typ[types.Uint8]))
					}
				case *ssa.Next:
					if rg, ok := t.Iter.(*ssa.Range); ok {
						key := "G!visited!" + fn.Name() + "!" + rg.Name()
						addKey(key)
					}
				case *ssa.Range:
					// (re)initialised inside the loop: nested iteration
					key := "G!visited!" + fn.Name() + "!" + t.Name()
					addKey(key)
				case *ssa.Call:
					w.callWrites(fr, fn, &t.Call, addKey, &all, depth, scan)
				case *ssa.Defer:
					all = true
					w.loopPreserved = map[string]bool{} // an unknown writer: nothing is known to survive
				case *ssa.RunDefers:
				}
			}
		}
	}
	scan(fr.fn, fr.id, blocks, 0)
	for _, k := range w.loopKeysExtra {
		if !seenK[k] {
			seenK[k] = true
			keys = append(keys, k)
		}
	}
	return
}

func addKeyQuiet(w *World, k string) { w.loopKeysExtra = append(w.loopKeysExtra, k) }

// addStoreTargets classifies a store by the object it writes: a field of a
// pointed-to object or an element of a slice gets a precise target, anything
// else is recorded as a write to the whole key.
func (w *World) addStoreTargets(addr ssa.Value, addKey func(string), addAt func(string, ssa.Value, bool)) {
	switch x := addr.(type) {
	case *ssa.FieldAddr:
		root := x
		for {
			if p, ok := root.X.(*ssa.FieldAddr); ok {
				root = p
				continue
			}
			break
		}
		if _, ok := root.X.(*ssa.IndexAddr); ok {
			w.addStoreKeys(addr, addKey)
			return
		}
		addAt(w.fieldKey(deref(root.X.Type()), root.Field), root.X, false)
	case *ssa.IndexAddr:
		if t, ok := x.X.Type().Underlying().(*types.Slice); ok {
			addAt(w.elemsKeyT(t.Elem()), x.X, true)
			return
		}
		if pt, ok := x.X.Type().Underlying().(*types.Pointer); ok {
			if at, ok := pt.Elem().Underlying().(*types.Array); ok {
				// element of an array object: the object is the target (an
				// array allocated inside the loop is fresh at every iteration,
				// which the frame guard "allocated before the loop" covers)
				addAt(w.elemsKeyT(at.Elem()), x.X, false)
				return
			}
		}
		w.addStoreKeys(addr, addKey)
	default:
		w.addStoreKeys(addr, addKey)
	}
}

// loopKeyPolicy records how a loop head framed a heap key, so that writes in
// the body can be checked against it.
type loopKeyPolicy struct {
	precise   bool
	freshOnly bool
	targets   []Term
	headAlloc Term // allocation counter at the loop head
}

// loopCallSite is a call by contract made inside a loop.
type loopCallSite struct {
	ct     *Contract
	callee *ssa.Function
	c      *ssa.CallCommon
	keys   []string
}

func containsStr(xs []string, x string) bool {
	for _, y := range xs {
		if y == x {
			return true
		}
	}
	return false
}

// resolveLoopCallTargets evaluates, at the loop head, the modifies clauses of
// the calls by contract the loop makes. A target is usable when it is a single
// object, its arguments do not change inside the loop and nothing it reads is
// written by the loop; otherwise the key is havocked as a whole.
func (w *World) resolveLoopCallTargets(fr *Frame, st *State, keys []string, inLoop map[*ssa.BasicBlock]bool, assigned map[cellID]bool) map[string][]Term {
	out := map[string][]Term{}
	written := map[string]bool{}
	for _, k := range keys {
		if !(w.loopFreshAlloc[k] && !w.loopWhole[k] && len(w.loopTargets[k]) == 0 && !w.loopFreshOnly[k]) || true {
			written[k] = true
		}
	}
	for _, cs := range w.loopCallSites {
		vars := map[string]*Val{}
		var args []ssa.Value
		if cs.c.IsInvoke() {
			args = append(args, cs.c.Value)
		}
		args = append(args, cs.c.Args...)
		names := cs.ct.Params
		var ptypes []types.Type
		if cs.callee != nil {
			for _, p := range cs.callee.Params {
				ptypes = append(ptypes, p.Type())
				if len(cs.ct.Params) == 0 {
					names = append(names, p.Name())
				}
			}
		} else {
			for _, a := range args {
				ptypes = append(ptypes, a.Type())
			}
		}
		for i, a := range args {
			if i >= len(names) {
				break
			}
			pt := a.Type()
			if i < len(ptypes) {
				pt = ptypes[i]
			}
			if t, ok := w.loopInvariantTerm(fr, st, a, inLoop, assigned); ok && t.Sort == w.sortOf(a.Type()) {
				vars[names[i]] = &Val{T: t, Typ: pt}
			} else {
				vars[names[i]] = &Val{T: Term{"|poison!" + names[i] + "|", w.sortOf(a.Type())}, Typ: pt}
			}
		}
		pkg := contractPkg(w, cs.ct, cs.callee)
		bad := map[string]bool{}
		good := map[string][]Term{}
		for _, me := range cs.ct.Modifies {
			func() {
				env := &CEnv{w: w, pkg: pkg, vars: vars, cur: st, old: st, lets: cs.ct.Lets, reads: map[string]bool{}}
				var ts []modTarget
				failed := false
				func() {
					defer func() {
						if r := recover(); r != nil {
							if _, ok := r.(unsupportedErr); !ok {
								panic(r)
							}
							failed = true
						}
					}()
					ts = w.modTarget(env, me)
				}()
				if failed {
					if os.Getenv("GOAVC_DEBUG") != "" {
						fmt.Fprintf(os.Stderr, "loop call target %s of %s: not evaluable at the head\n", exprString(me), cs.ct.Name)
					}
					for _, k := range cs.keys {
						bad[k] = true
					}
					return
				}
				unstable := false
				for k := range env.reads {
					if written[k] {
						unstable = true
					}
				}
				if unstable {
					// the designated object may change inside the loop: keep the
					// object designated at function entry as the target and let
					// every call prove that it writes that one or an object
					// allocated since entry (checked at the call)
					var te []modTarget
					var eenv *CEnv
					efail := false
					func() {
						defer func() {
							if r := recover(); r != nil {
								if _, ok := r.(unsupportedErr); !ok {
									panic(r)
								}
								efail = true
							}
						}()
						eenv = &CEnv{w: w, pkg: pkg, vars: vars, cur: fr.entry, old: fr.entry, lets: cs.ct.Lets, reads: map[string]bool{}, readIdx: map[string][]string{}}
						te = w.modTarget(eenv, me)
					}()
					// the entry-state designation means something only when it was read
					// through objects that existed at entry
					valid := tTrue
					if !efail {
						ea := w.hget(fr.entry, allocKey)
						for k, idxs := range eenv.readIdx {
							if strings.HasPrefix(k, "Glob!") {
								continue
							}
							if !strings.HasPrefix(k, "F!") && !strings.HasPrefix(k, "Cell!") {
								valid = tFalse
								continue
							}
							for _, ix := range idxs {
								valid = and(valid, Term{fmt.Sprintf("(<= %s %s)", ix, ea.S), SBool})
							}
						}
					}
					for _, t := range ts {
						if efail {
							bad[t.key] = true
						}
					}
					if efail {
						return
					}
					for _, t := range te {
						if t.member != nil && !t.whole {
							// a set of objects (each(s, f)): no single target; every call proves that the
							// members were allocated since function entry (checked at the call)
							w.loopFreshOnly[t.key] = true
							continue
						}
						if !t.whole && t.member == nil && strings.Contains(t.idx.S, "poison!") {
							// designated by a value computed inside the loop: nothing to resolve at the head; the call
							// proves that it writes an object allocated since the head (or a resolved target)
							continue
						}
						if t.whole || t.member != nil || t.idx.S == "" {
							bad[t.key] = true
							continue
						}
						good[t.key] = append(good[t.key], ite(valid, t.idx, intLit(-1)))
						w.loopFreshOnly[t.key] = true
					}
					return
				}
				for _, t := range ts {
					if t.member != nil && !t.whole {
						w.loopFreshOnly[t.key] = true
						continue
					}
					if !t.whole && t.member == nil && strings.Contains(t.idx.S, "poison!") {
						continue
					}
					if t.whole || t.member != nil || t.idx.S == "" {
						bad[t.key] = true
						continue
					}
					good[t.key] = append(good[t.key], t.idx)
				}
			}()
		}
		for k := range bad {
			w.loopWhole[k] = true
		}
		for k, ts := range good {
			if !bad[k] {
				out[k] = append(out[k], ts...)
			}
		}
	}
	return out
}

// loopCallWriteCheck: a call by contract inside a loop writes the objects the
// loop head assumed (or objects allocated since the loop head).
func (w *World) loopCallWriteCheck(fr *Frame, st *State, targets []modTarget) {
	if !fr.top || fr.loops == nil || w.curBlock == nil || fr.loopPolicy == nil || w.muted > 0 {
		return
	}
	for h, blocks := range fr.loops.body {
		in := false
		for _, b := range blocks {
			if b == w.curBlock {
				in = true
			}
		}
		if !in {
			continue
		}
		for _, t := range targets {
			pol := fr.loopPolicy[h][t.key]
			if pol == nil || !pol.precise {
				continue
			}
			props := []string{}
			if fr.contract != nil {
				props = fr.contract.Props
			}
			w.callOrd["loopwrite"]++
			name := fmt.Sprintf("loopwrite.%d.%s.call-target", w.callOrd["loopwrite"], t.key)
			if t.member != nil && !t.whole {
				q := w.sc.fresh("mw!", SInt)
				alts := []Term{lt(pol.headAlloc, q), eq(q, intLit(0))}
				if pol.freshOnly {
					alts = append(alts, lt(w.hget(fr.entry, allocKey), q))
				}
				for _, pt := range pol.targets {
					alts = append(alts, eq(q, pt))
				}
				if t.memberAt != nil {
					// "q is some element" with the element's index named by the generator, and the quantified facts
					// on the path instantiated at that index (left to the solvers this was seed dependent)
					sk := w.sc.fresh("sk.ei", SInt)
					w.instantiateIntFactsAt(sk)
					w.oblige("loop.write", name, st.cond, implies(t.memberAt(q, sk), or(alts...)), false, props)
					continue
				}
				w.oblige("loop.write", name, st.cond, implies(t.member(q), or(alts...)), false, props)
				continue
			}
			if t.whole || t.member != nil {
				o := w.oblige("loop.write", name, st.cond, tFalse, false, props)
				o.Result = &SolverResult{Status: "undecided", Output: "a call inside the loop may write " + t.key + " at objects the loop head did not resolve"}
				continue
			}
			alts := []Term{lt(pol.headAlloc, t.idx), eq(t.idx, intLit(0))} // (nothing lives at reference 0)
			if pol.freshOnly {
				alts = append(alts, lt(w.hget(fr.entry, allocKey), t.idx))
			}
			for _, pt := range pol.targets {
				alts = append(alts, eq(t.idx, pt))
			}
			w.oblige("loop.write", name, st.cond, or(alts...), false, props)
		}
	}
}

// loopWriteCheck: a write to (key, ref) inside loops of the function under
// contract must respect the frame each enclosing loop head assumed.
func (w *World) loopWriteCheck(fr *Frame, st *State, key string, ref Term) {
	w.loopWriteCheckIf(fr, st, key, ref, tTrue)
}

func (w *World) loopWriteCheckIf(fr *Frame, st *State, key string, ref Term, when Term) {
	if !fr.top || fr.loops == nil || w.curBlock == nil || fr.loopPolicy == nil {
		return
	}
	for h, blocks := range fr.loops.body {
		in := false
		for _, b := range blocks {
			if b == w.curBlock {
				in = true
			}
		}
		if !in {
			continue
		}
		pol := fr.loopPolicy[h][key]
		if pol == nil || !pol.precise || !pol.freshOnly {
			continue // whole key havocked, or every target was resolved syntactically
		}
		var alts []Term
		alts = append(alts, lt(w.hget(fr.entry, allocKey), ref))
		for _, t := range pol.targets {
			alts = append(alts, eq(ref, t))
		}
		w.callOrd["loopwrite"]++
		props := []string{}
		if fr.contract != nil {
			props = fr.contract.Props
		}
		w.oblige("loop.write", fmt.Sprintf("loopwrite.%d.%s.fresh-object", w.callOrd["loopwrite"], key), and(st.cond, when), or(alts...), false, props)
	}
}

type loopTarget struct {
	v        ssa.Value
	viaSlice bool
}

func (w *World) addAllocKeys(et types.Type, addKey func(string)) {
	switch u := et.Underlying().(type) {
	case *types.Struct:
		for i := 0; i < u.NumFields(); i++ {
			addKey(w.fieldKey(et, i))
		}
	case *types.Array:
		addKey(w.elemsKeyT(u.Elem()))
	default:
		addKey(w.cellKey(w.sortOf(et)))
	}
}

func (w *World) addStoreKeys(addr ssa.Value, addKey func(string)) {
	switch x := addr.(type) {
	case *ssa.FieldAddr:
		// walk up to the root object
		root := x
		for {
			if p, ok := root.X.(*ssa.FieldAddr); ok {
				root = p
				continue
			}
			break
		}
		if ia, ok := root.X.(*ssa.IndexAddr); ok {
			w.addStoreKeys(ia, addKey)
			return
		}
		addKey(w.fieldKey(deref(root.X.Type()), root.Field))
	case *ssa.IndexAddr:
		switch t := x.X.Type().Underlying().(type) {
		case *types.Slice:
			addKey(w.elemsKeyT(t.Elem()))
		case *types.Pointer:
			addKey(w.elemsKeyT(t.Elem().Underlying().(*types.Array).Elem()))
		}
	case *ssa.Global:
		addKey(w.globalKey(x))
	default:
		et := deref(addr.Type())
		w.addAllocKeys(et, addKey)
	}
}

func (w *World) callWrites(fr *Frame, fn *ssa.Function, c *ssa.CallCommon, addKey func(string), all *bool, depth int,
	scan func(fn *ssa.Function, frameID int, blocks []*ssa.BasicBlock, depth int)) {
	if b, ok := c.Value.(*ssa.Builtin); ok {
		switch b.Name() {
		case "append":
			if len(c.Args) > 0 {
				if st, ok := c.Args[0].Type().Underlying().(*types.Slice); ok {
					if depth == 0 && fn == fr.fn && fr.top {
						// in-place appends are checked (obligation) to hit only arrays
						// allocated since function entry: the loop frame keeps older ones
						w.loopFreshOnly[w.elemsKeyT(st.Elem())] = true
						addKeyQuiet(w, w.elemsKeyT(st.Elem()))
					} else {
						addKey(w.elemsKeyT(st.Elem()))
					}
				}
			}
		case "copy":
			if len(c.Args) > 0 {
				if st, ok := c.Args[0].Type().Underlying().(*types.Slice); ok {
					addKey(w.elemsKeyT(st.Elem()))
				}
			}
		case "delete":
			mt := c.Args[0].Type().Underlying().(*types.Map)
			dk, vk := w.mapKeys(w.sortOf(mt.Key()), w.sortOf(mt.Elem()))
			addKey(dk)
			addKey(vk)
			addKey("MapLen")
		}
		return
	}
	if !c.IsInvoke() && c.StaticCallee() == nil {
		if cands, closed := storedFunctions(fn, c.Value); closed {
			for _, cand := range cands {
				if cct := w.contractFor(cand); cct != nil && !cct.Inline {
					if cct.ModAll || (!cct.ModStated && cct.Kind == "func") {
						*all = true
						w.loopPreserved = map[string]bool{} // an unknown writer: nothing is known to survive
						return
					}
					for _, k := range w.contractKeys(cct, cand) {
						addKey(k)
					}
				} else if cand.Blocks != nil && w.inModule(cand) && depth < 3 {
					scan(cand, -1, cand.Blocks, depth+1)
				} else {
					*all = true
					w.loopPreserved = map[string]bool{} // an unknown writer: nothing is known to survive
				}
			}
			return
		}
	}
	ct, callee := w.resolveContract(fr, c, nil)
	if ct != nil && !ct.Inline {
		if ct.ModAll || (!ct.ModStated && ct.Kind == "func") {
			*all = true
			// keys every "modifies all" callee of the loop promises to leave unchanged survive the havoc
			pres := map[string]bool{}
			if len(ct.Preserves) > 0 {
				env := &CEnv{w: w, pkg: contractPkg(w, ct, callee), vars: map[string]*Val{}, cur: &State{cond: tTrue, heap: map[string]Term{}, cells: map[cellID]Term{}}}
				env.old = env.cur
				for _, pe := range ct.Preserves {
					for _, k := range w.preservedKeys(env, pe) {
						pres[k] = true
					}
				}
			}
			if w.loopPreserved == nil {
				w.loopPreserved = pres
			} else {
				for k := range w.loopPreserved {
					if !pres[k] {
						delete(w.loopPreserved, k)
					}
				}
			}
			return
		}
		if depth == 0 && fn == fr.fn && fr.top && ct.ModStated && !ct.ModAll {
			// a call by contract made by the loop itself: the objects its
			// modifies clause designates are resolved at the loop head (when
			// they do not change inside the loop); what its postcondition
			// reads of fresh objects does not touch older ones
			mk, pk, ok := w.contractKeySets(ct, callee)
			if !ok {
				for _, k := range w.contractKeys(ct, callee) {
					addKey(k)
				}
				return
			}
			for _, k := range mk {
				addKeyQuiet(w, k)
			}
			for _, k := range pk {
				addKeyQuiet(w, k)
				if !containsStr(mk, k) {
					w.loopFreshAlloc[k] = true
				}
			}
			w.loopCallSites = append(w.loopCallSites, loopCallSite{ct: ct, callee: callee, c: c, keys: mk})
			return
		}
		for _, k := range w.contractKeys(ct, callee) {
			addKey(k)
		}
		return
	}
	if callee != nil && callee.Blocks != nil && w.inModule(callee) && depth < 3 {
		scan(callee, -1, callee.Blocks, depth+1)
		return
	}
	*all = true
	w.loopPreserved = map[string]bool{} // an unknown writer: nothing is known to survive
}

func (w *World) inModule(f *ssa.Function) bool {
	if f.Pkg == nil {
		if f.Parent() != nil {
			return w.inModule(f.Parent())
		}
		return false
	}
	return strings.HasPrefix(f.Pkg.Pkg.Path(), modPath)
}

// collectThenSort recognises the loop shape

//	for k := range m { ks = append(ks, <expr>) }   (possibly under conditions)
//	sort.Strings(ks) | sort.Slice(ks, ...) | sort.Sort(...(ks))
//
// i.e. the only memory the loop body writes is one local slice variable (by append), nothing is called that
// could observe the order, and the first instruction after the loop that uses the variable is the sort.
// It returns the name of the slice variable, or "".
func collectThenSort(fn *ssa.Function, body []*ssa.BasicBlock, head *ssa.BasicBlock) string {
	in := map[*ssa.BasicBlock]bool{}
	for _, b := range body {
		in[b] = true
	}
	var target *ssa.Alloc
	for _, b := range body {
		for _, ins := range b.Instrs {
			switch t := ins.(type) {
			case *ssa.Store:
				a, ok := t.Addr.(*ssa.Alloc)
				if !ok {
					// a store into an object allocated by this iteration (e.g. the argument array of a variadic call)
					if ra := allocOf(t.Addr); ra != nil && in[ra.Block()] {
						continue
					}
					return ""
				}
				if _, isSlice := deref(a.Type()).Underlying().(*types.Slice); isSlice {
					// the stored value must be append(load(a), ...)
					c, ok := t.Val.(*ssa.Call)
					if !ok {
						return ""
					}
					bi, ok := c.Call.Value.(*ssa.Builtin)
					if !ok || bi.Name() != "append" {
						return ""
					}
					ld, ok := c.Call.Args[0].(*ssa.UnOp)
					if !ok || ld.X != a {
						return ""
					}
					if target != nil && target != a {
						return ""
					}
					target = a
					continue
				}
				// loop-local scalars (the range key/value copies) are fine when they are allocated in the loop or are plain locals
				if a.Heap {
					return ""
				}
				if !in[a.Block()] && a != target {
					// a variable of the enclosing function assigned in the loop: order dependent in general
					if a.Comment != "rangeindex" {
						// the key and value variables of the range statement itself are (re)assigned each iteration
						used := false
						for _, r := range *a.Referrers() {
							if _, dbg := r.(*ssa.DebugRef); dbg {
								continue
							}
							if r.Block() != nil && !in[r.Block()] {
								if _, isStore := r.(*ssa.Store); !isStore {
									used = true
								}
							}
						}
						if used {
							return ""
						}
					}
				}
			case *ssa.Call:
				if bi, ok := t.Call.Value.(*ssa.Builtin); ok {
					switch bi.Name() {
					case "append", "len", "cap":
						continue
					}
					return ""
				}
				// pure string helpers are harmless
				if f := t.Call.StaticCallee(); f != nil && f.Pkg != nil && f.Pkg.Pkg.Path() == "strings" {
					continue
				}
				return ""
			case *ssa.MapUpdate, *ssa.Send, *ssa.Go, *ssa.Defer, *ssa.Panic:
				return ""
			}
		}
	}
	if target == nil {
		return ""
	}
	// the first use of the slice after the loop must be the sort
	var exit *ssa.BasicBlock
	for _, sc := range head.Succs {
		if !in[sc] {
			exit = sc
		}
	}
	if exit == nil {
		return ""
	}
	for _, ins := range exit.Instrs {
		ld, ok := ins.(*ssa.UnOp)
		if !ok || ld.X != target {
			continue
		}
		for _, r := range *ld.Referrers() {
			if _, dbg := r.(*ssa.DebugRef); dbg {
				continue
			}
			c, ok := r.(*ssa.Call)
			if !ok {
				return ""
			}
			f := c.Call.StaticCallee()
			if f == nil || f.Pkg == nil || f.Pkg.Pkg.Path() != "sort" {
				return ""
			}
			switch f.Name() {
			case "Strings", "Slice", "SliceStable", "Ints":
				return target.Comment
			}
			return ""
		}
	}
	return ""
}

// A helper invariant (not derived from the property) is a proof hint about the shape the code had when the
// contract was written. When it can no longer be evaluated (it names a local that is gone, or a loop that is
// no longer a range loop) it is set aside and the function is verified again without it: the ★ obligations
// then prove without the hint or they fail; either way nothing is assumed that was not checked.
type clauseSkip struct {
	cl  *Clause
	msg string
}

func (w *World) hintEval(cl *Clause, f func()) {
	defer func() {
		if r := recover(); r != nil {
			if u, ok := r.(unsupportedErr); ok && !cl.Star {
				panic(clauseSkip{cl, u.msg})
			}
			panic(r)
		}
	}()
	f()
}

func (w *World) hintGoal(cl *Clause, env *CEnv) Term {
	var t Term
	w.hintEval(cl, func() { t = w.skolemGoal(env, cl.Expr) })
	return t
}

// Bounded stand-in. When the proof hints of a function (its loop invariants) no longer fit its body, the
// function is checked again with every loop unrolled: each loop head is entered at most unrollN times, no
// invariant is used, nothing is forgotten at a loop head, and the paths that would enter a loop head once more
// are not explored. What this decides is bounded (slices and maps of fewer than unrollN elements per loop) and
// is reported as such, never as a proof.
func (w *World) unrollLoop(fr *Frame, ins []inEdge, h *ssa.BasicBlock, k int, outer map[*ssa.BasicBlock][]inEdge, outerRg *region) {
	inLoop := map[*ssa.BasicBlock]bool{}
	for _, b := range fr.loops.body[h] {
		inLoop[b] = true
	}
	// a value computed inside the loop and used after it would need a merge over the iterations
	for _, b := range fr.fn.Blocks {
		if inLoop[b] {
			continue
		}
		for _, ins := range b.Instrs {
			for _, op := range ins.Operands(nil) {
				if op == nil || *op == nil {
					continue
				}
				if d, ok := (*op).(ssa.Instruction); ok && d.Block() != nil && inLoop[d.Block()] {
					if _, isAlloc := (*op).(*ssa.Alloc); !isAlloc {
						unsupported("unrolling loop %d of %s: a value computed inside the loop is used after it", k, fr.fn.Name())
					}
				}
			}
		}
	}
	if fr.loopHeads != nil {
		delete(fr.loopHeads, k)
	}
	cur := ins
	for it := 0; it < w.unrollN; it++ {
		rg := &region{header: h, in: inLoop, unroll: true}
		inc := map[*ssa.BasicBlock][]inEdge{h: cur}
		w.runBlocks(fr, inc, rg)
		for _, e := range rg.exits {
			w.pushEdge(fr, outer, e.from, e.to, e.st, outerRg)
		}
		if len(rg.backIns) == 0 {
			return
		}
		cur = rg.backIns
	}
	w.unrollCuts++
}

// unrollArrival checks the ★ invariants and ★ step relations of loop k at one arrival at its head.
func (w *World) unrollArrival(fr *Frame, st *State, k int) {
	if !fr.top || fr.contract == nil {
		return
	}
	ls := w.loopSpec(fr, k)
	w.callOrd[fmt.Sprintf("unroll:%d", k)]++
	n := w.callOrd[fmt.Sprintf("unroll:%d", k)]
	if fr.loopHeads == nil {
		fr.loopHeads = map[int]*State{}
	}
	for _, inv := range ls.Invariants {
		if !inv.Star {
			continue
		}
		env := w.contractEnv(fr, st, fr.entry)
		w.oblige("loop.step", fmt.Sprintf("loop%d.arrival%d.%s", k, n, inv.Label), st.cond, w.skolemGoal(env, inv.Expr), true, fr.contract.Props)
	}
	if _, seen := fr.loopHeads[k]; seen {
		for _, rel := range ls.Steps {
			if !rel.Star {
				continue
			}
			env := w.contractEnv(fr, st, fr.entry)
			w.oblige("loop.rel", fmt.Sprintf("loop%d.arrival%d.%s", k, n, rel.Label), st.cond, w.skolemGoal(env, rel.Expr), true, fr.contract.Props)
		}
	}
	fr.loopHeads[k] = st.clone()
}

// monotoneIn reports whether every store to the local a inside the given blocks has the form a = a + c with a
// positive constant c.
func monotoneIn(a *ssa.Alloc, blocks []*ssa.BasicBlock) bool {
	n := 0
	for _, b := range blocks {
		for _, ins := range b.Instrs {
			st, ok := ins.(*ssa.Store)
			if !ok || st.Addr != ssa.Value(a) {
				continue
			}
			n++
			bin, ok := st.Val.(*ssa.BinOp)
			if !ok || bin.Op != token.ADD {
				return false
			}
			ld, ok := bin.X.(*ssa.UnOp)
			if !ok || ld.Op != token.MUL || ld.X != ssa.Value(a) {
				return false
			}
			c, ok := bin.Y.(*ssa.Const)
			if !ok || c.Value == nil || c.Int64() <= 0 {
				return false
			}
		}
	}
	// the address must not be used for anything but loads and these stores
	if refs := a.Referrers(); refs != nil {
		for _, r := range *refs {
			switch x := r.(type) {
			case *ssa.Store:
				if x.Addr != ssa.Value(a) {
					return false
				}
			case *ssa.UnOp, *ssa.DebugRef:
			default:
				return false
			}
		}
	}
	return n > 0
}
