package main

import (
	"fmt"
	"go/ast"
	"go/token"
	"strconv"
	"strings"
)

// regexLiteral finds the literal a package-level *regexp.Regexp variable is
// compiled from (var x = regexp.MustCompile(`...`)) in the package's syntax.
func (w *World) regexLiteral(env *CEnv, name string) (string, bool) {
	if env.pkg == nil {
		return "", false
	}
	pk := w.l.All[env.pkg.Path()]
	if pk == nil {
		return "", false
	}
	for _, f := range pk.Syntax {
		for _, d := range f.Decls {
			gd, ok := d.(*ast.GenDecl)
			if !ok || gd.Tok != token.VAR {
				continue
			}
			for _, sp := range gd.Specs {
				vs := sp.(*ast.ValueSpec)
				for i, n := range vs.Names {
					if n.Name != name || i >= len(vs.Values) {
						continue
					}
					call, ok := vs.Values[i].(*ast.CallExpr)
					if !ok || len(call.Args) != 1 {
						continue
					}
					if sel, ok := call.Fun.(*ast.SelectorExpr); !ok || (sel.Sel.Name != "MustCompile" && sel.Sel.Name != "MustCompilePOSIX") {
						continue
					}
					lit, ok := call.Args[0].(*ast.BasicLit)
					if !ok || lit.Kind != token.STRING {
						continue
					}
					s, err := strconv.Unquote(lit.Value)
					if err != nil {
						continue
					}
					return s, true
				}
			}
		}
	}
	return "", false
}

// goRegexToSMT translates a Go (RE2) regular expression of a small subset into
// an SMT-LIB RegLan term denoting the set of strings MatchString accepts
// (search semantics: an unanchored alternative may match anywhere).
//
// Subset: literals, escapes of punctuation, '.', character classes with
// ranges and POSIX classes, groups (capturing and (?:...)), alternation,
// ? * + {m} {m,} {m,n}, and ^ / $ at the start / end of a top-level
// alternative only.
func goRegexToSMT(re string) (string, error) {
	p := &reParser{s: re}
	alts, err := p.topAlternatives()
	if err != nil {
		return "", err
	}
	var out []string
	for _, a := range alts {
		parts := []string{}
		if !a.anchoredStart {
			parts = append(parts, "re.all")
		}
		parts = append(parts, a.body)
		if !a.anchoredEnd {
			parts = append(parts, "re.all")
		}
		out = append(out, reConcat(parts))
	}
	return reUnion(out), nil
}

type reAlt struct {
	body                       string
	anchoredStart, anchoredEnd bool
}

type reParser struct {
	s string
	i int
}

func (p *reParser) eof() bool  { return p.i >= len(p.s) }
func (p *reParser) peek() byte { return p.s[p.i] }

func reConcat(parts []string) string {
	var xs []string
	for _, x := range parts {
		if x != `(str.to_re "")` {
			xs = append(xs, x)
		}
	}
	switch len(xs) {
	case 0:
		return `(str.to_re "")`
	case 1:
		return xs[0]
	}
	return "(re.++ " + strings.Join(xs, " ") + ")"
}

func reUnion(parts []string) string {
	if len(parts) == 1 {
		return parts[0]
	}
	return "(re.union " + strings.Join(parts, " ") + ")"
}

func (p *reParser) topAlternatives() ([]reAlt, error) {
	var alts []reAlt
	for {
		a := reAlt{}
		if !p.eof() && p.peek() == '^' {
			a.anchoredStart = true
			p.i++
		}
		var items []string
		for !p.eof() && p.peek() != '|' {
			if p.peek() == '$' {
				p.i++
				if !p.eof() && p.peek() != '|' {
					return nil, fmt.Errorf("'$' inside an alternative is not supported")
				}
				a.anchoredEnd = true
				break
			}
			if p.peek() == '^' {
				return nil, fmt.Errorf("'^' inside an alternative is not supported")
			}
			it, err := p.repeat()
			if err != nil {
				return nil, err
			}
			items = append(items, it)
		}
		a.body = reConcat(items)
		alts = append(alts, a)
		if p.eof() {
			return alts, nil
		}
		p.i++ // '|'
	}
}

// alternation inside a group (no anchors)
func (p *reParser) alternation() (string, error) {
	var alts []string
	for {
		var items []string
		for !p.eof() && p.peek() != '|' && p.peek() != ')' {
			if p.peek() == '^' || p.peek() == '$' {
				return "", fmt.Errorf("anchor inside a group is not supported")
			}
			it, err := p.repeat()
			if err != nil {
				return "", err
			}
			items = append(items, it)
		}
		alts = append(alts, reConcat(items))
		if p.eof() || p.peek() == ')' {
			return reUnion(alts), nil
		}
		p.i++
	}
}

func (p *reParser) repeat() (string, error) {
	a, err := p.atom()
	if err != nil {
		return "", err
	}
	for !p.eof() {
		switch p.peek() {
		case '*':
			p.i++
			a = "(re.* " + a + ")"
		case '+':
			p.i++
			a = "(re.+ " + a + ")"
		case '?':
			p.i++
			a = "(re.opt " + a + ")"
		case '{':
			j := strings.IndexByte(p.s[p.i:], '}')
			if j < 0 {
				return "", fmt.Errorf("unterminated repetition")
			}
			spec := p.s[p.i+1 : p.i+j]
			p.i += j + 1
			var lo, hi int
			if k := strings.IndexByte(spec, ','); k < 0 {
				n, err := strconv.Atoi(spec)
				if err != nil {
					return "", err
				}
				lo, hi = n, n
			} else {
				n, err := strconv.Atoi(spec[:k])
				if err != nil {
					return "", err
				}
				lo = n
				if spec[k+1:] == "" {
					a = fmt.Sprintf("(re.++ ((_ re.loop %d %d) %s) (re.* %s))", lo, lo, a, a)
					continue
				}
				m, err := strconv.Atoi(spec[k+1:])
				if err != nil {
					return "", err
				}
				hi = m
			}
			a = fmt.Sprintf("((_ re.loop %d %d) %s)", lo, hi, a)
		default:
			return a, nil
		}
		// lazy quantifier suffix does not change the language
		if !p.eof() && p.peek() == '?' {
			p.i++
		}
	}
	return a, nil
}

func smtChar(c byte) string {
	return strLit(string([]byte{c})).S
}

func (p *reParser) atom() (string, error) {
	c := p.peek()
	switch c {
	case '(':
		p.i++
		if strings.HasPrefix(p.s[p.i:], "?:") {
			p.i += 2
		} else if strings.HasPrefix(p.s[p.i:], "?") {
			return "", fmt.Errorf("group flags are not supported")
		}
		inner, err := p.alternation()
		if err != nil {
			return "", err
		}
		if p.eof() || p.peek() != ')' {
			return "", fmt.Errorf("missing )")
		}
		p.i++
		return inner, nil
	case '[':
		return p.class()
	case '.':
		p.i++
		return `(re.diff re.allchar (str.to_re "\u{a}"))`, nil
	case '\\':
		p.i++
		if p.eof() {
			return "", fmt.Errorf("trailing backslash")
		}
		e := p.peek()
		p.i++
		switch e {
		case 'd':
			return `(re.range "0" "9")`, nil
		case 'w':
			return `(re.union (re.range "a" "z") (re.range "A" "Z") (re.range "0" "9") (str.to_re "_"))`, nil
		case 's':
			return `(re.union (str.to_re " ") (str.to_re "\u{9}") (str.to_re "\u{a}") (str.to_re "\u{c}") (str.to_re "\u{d}"))`, nil
		}
		if e >= 'a' && e <= 'z' || e >= 'A' && e <= 'Z' || e >= '0' && e <= '9' {
			return "", fmt.Errorf("escape \\%c is not supported", e)
		}
		return "(str.to_re " + smtChar(e) + ")", nil
	case ')', '|', '*', '+', '?', '{':
		return "", fmt.Errorf("unexpected %q at %d", c, p.i)
	}
	p.i++
	return "(str.to_re " + smtChar(c) + ")", nil
}

var posixClasses = map[string]string{
	"alnum":  `(re.union (re.range "a" "z") (re.range "A" "Z") (re.range "0" "9"))`,
	"alpha":  `(re.union (re.range "a" "z") (re.range "A" "Z"))`,
	"digit":  `(re.range "0" "9")`,
	"lower":  `(re.range "a" "z")`,
	"upper":  `(re.range "A" "Z")`,
	"xdigit": `(re.union (re.range "0" "9") (re.range "a" "f") (re.range "A" "F"))`,
}

func (p *reParser) class() (string, error) {
	p.i++ // [
	neg := false
	if !p.eof() && p.peek() == '^' {
		neg = true
		p.i++
	}
	var parts []string
	first := true
	for {
		if p.eof() {
			return "", fmt.Errorf("unterminated class")
		}
		c := p.peek()
		if c == ']' && !first {
			p.i++
			break
		}
		first = false
		if strings.HasPrefix(p.s[p.i:], "[:") {
			j := strings.Index(p.s[p.i:], ":]")
			if j < 0 {
				return "", fmt.Errorf("unterminated POSIX class")
			}
			name := p.s[p.i+2 : p.i+j]
			r, ok := posixClasses[name]
			if !ok {
				return "", fmt.Errorf("POSIX class %s is not supported", name)
			}
			parts = append(parts, r)
			p.i += j + 2
			continue
		}
		lo := c
		p.i++
		if c == '\\' {
			if p.eof() {
				return "", fmt.Errorf("trailing backslash in class")
			}
			lo = p.peek()
			p.i++
			if lo == 'd' {
				parts = append(parts, posixClasses["digit"])
				continue
			}
			if lo == 'w' {
				parts = append(parts, posixClasses["alnum"], `(str.to_re "_")`)
				continue
			}
			if lo >= 'a' && lo <= 'z' || lo >= 'A' && lo <= 'Z' {
				return "", fmt.Errorf("escape \\%c in class is not supported", lo)
			}
		}
		if !p.eof() && p.peek() == '-' && p.i+1 < len(p.s) && p.s[p.i+1] != ']' {
			p.i++
			hi := p.peek()
			p.i++
			if hi == '\\' {
				hi = p.peek()
				p.i++
			}
			parts = append(parts, fmt.Sprintf("(re.range %s %s)", smtChar(lo), smtChar(hi)))
			continue
		}
		parts = append(parts, "(str.to_re "+smtChar(lo)+")")
	}
	u := reUnion(parts)
	if neg {
		return "(re.diff re.allchar " + u + ")", nil
	}
	return u, nil
}
