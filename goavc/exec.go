package main

import (
	"fmt"
	"go/constant"
	"go/token"
	"go/types"
	"sort"
	"strings"

	"golang.org/x/tools/go/ssa"
)

// Val is the symbolic value of an SSA value or of a contract expression.
type Val struct {
	T        Term
	Typ      types.Type // may be nil for pure specification values
	Loc      *Loc       // statically known address (pointer values)
	Tuple    []*Val
	Fn       *FnVal // statically known function value
	Dyn      *Val   // interface value built by MakeInterface: the concrete value
	IsNil    bool   // untyped nil of a contract expression
	ConstLen int    // slices of statically known length (varargs)
}

// FnVal is a function value whose target is known while generating VCs.
type FnVal struct {
	Fn       *ssa.Function
	Bindings []*Val // closure bindings (pointers to captured cells)
}

type pathStep struct {
	field int
	idx   *Term
	typ   types.Type // type of the value selected by this step
}

// Loc is a statically known address.
type Loc struct {
	kind  string // cell | field | elem | heapcell | global
	cell  cellID
	base  Term       // field: pointer to the object; elem: backing array ref; heapcell: the pointer
	styp  types.Type // field: struct type of the object
	field int
	idx   Term // elem: absolute index into the backing array
	key   string
	rootT types.Type // type of the value stored at the root location
	path  []pathStep
}

func (l *Loc) typ() types.Type {
	if len(l.path) > 0 {
		return l.path[len(l.path)-1].typ
	}
	return l.rootT
}

// Frame is one activation: the function being executed (top-level or inlined).
type Frame struct {
	id         int
	fn         *ssa.Function
	vals       map[ssa.Value]*Val
	contract   *Contract
	entry      *State // state at function entry (for old())
	params     map[string]*Val
	defers     []*ssa.Defer
	deferSt    map[*ssa.Defer][]*Val
	top        bool
	returns    []retPoint
	loops      *loopInfo
	lockHeld   map[string]bool
	depth      int
	callspecs  map[string]*Contract
	loopPolicy map[*ssa.BasicBlock]map[string]*loopKeyPolicy
	parent     *Frame
	loopHeads  map[int]*State // state at the head of loop K in the current iteration (prev(K, e))
}

type retPoint struct {
	st   *State
	vals []*Val
}

func deref(t types.Type) types.Type {
	if p, ok := t.Underlying().(*types.Pointer); ok {
		return p.Elem()
	}
	panic("deref of non-pointer " + t.String())
}

func isStruct(t types.Type) bool {
	_, ok := t.Underlying().(*types.Struct)
	return ok
}

// ---------------------------------------------------------------------
// Loads and stores

func (w *World) rootLoad(st *State, l *Loc) Term {
	switch l.kind {
	case "cell":
		v, ok := st.cells[l.cell]
		if !ok {
			unsupported("read of local %s that is not live on this path", l.cell.alloc.Comment)
		}
		return v
	case "field":
		return sel(w.hget(st, w.fieldKey(l.styp, l.field)), l.base)
	case "heapcell":
		return sel(w.hget(st, w.cellKey(w.sortOf(l.rootT))), l.base)
	case "elem":
		return sel(sel(w.hget(st, w.elemsKeyT(l.rootT)), l.base), l.idx)
	case "global":
		t := w.hget(st, l.key)
		if pred, ok := w.specs.GlobalFacts[l.key]; ok {
			w.sc.assume(Term{fmt.Sprintf("(%s %s)", pred, t.S), SBool})
			w.assumption("values read from the package-level variable " + strings.TrimPrefix(l.key, "Glob!") + " satisfy " + pred + " (documented as safe for concurrent use)")
		}
		return t
	}
	panic("bad loc kind " + l.kind)
}

func (w *World) rootStore(st *State, l *Loc, v Term) {
	switch l.kind {
	case "cell":
		st.cells[l.cell] = w.sc.define("c."+l.cell.alloc.Comment, v)
	case "field":
		k := w.fieldKey(l.styp, l.field)
		w.hset(st, k, store(w.hget(st, k), l.base, v))
	case "heapcell":
		k := w.cellKey(w.sortOf(l.rootT))
		w.hset(st, k, store(w.hget(st, k), l.base, v))
	case "elem":
		k := w.elemsKeyT(l.rootT)
		h := w.hget(st, k)
		w.hset(st, k, store(h, l.base, store(sel(h, l.base), l.idx, v)))
	case "global":
		w.hset(st, l.key, v)
	default:
		panic("bad loc kind " + l.kind)
	}
}

func (w *World) pathGet(root Term, rootT types.Type, path []pathStep) Term {
	cur, curT := root, rootT
	for _, s := range path {
		if s.idx != nil {
			cur = sel(cur, *s.idx)
		} else {
			cur = mk(w.sortOf(s.typ), w.structSel(curT, s.field), cur)
		}
		curT = s.typ
	}
	return cur
}

func (w *World) pathSet(root Term, rootT types.Type, path []pathStep, v Term) Term {
	if len(path) == 0 {
		return v
	}
	s := path[0]
	if s.idx != nil {
		inner := w.pathSet(sel(root, *s.idx), s.typ, path[1:], v)
		return store(root, *s.idx, inner)
	}
	st := rootT.Underlying().(*types.Struct)
	var args []Term
	for i := 0; i < st.NumFields(); i++ {
		fv := mk(w.sortOf(st.Field(i).Type()), w.structSel(rootT, i), root)
		if i == s.field {
			fv = w.pathSet(fv, s.typ, path[1:], v)
		}
		args = append(args, fv)
	}
	return mk(w.sortOf(rootT), w.structCtor(rootT), args...)
}

func (w *World) loadLoc(st *State, l *Loc) Term {
	return w.pathGet(w.rootLoad(st, l), l.rootT, l.path)
}

func (w *World) storeLoc(st *State, l *Loc, v Term) {
	if len(l.path) == 0 {
		w.rootStore(st, l, v)
		return
	}
	w.rootStore(st, l, w.pathSet(w.rootLoad(st, l), l.rootT, l.path, v))
}

// locOf gives the location a pointer value designates.
func (w *World) locOf(v *Val, ptrT types.Type) *Loc {
	if v.Loc != nil {
		return v.Loc
	}
	et := deref(ptrT)
	if isStruct(et) {
		return nil // whole object: handled by loadObject/storeObject
	}
	if _, ok := et.Underlying().(*types.Array); ok {
		unsupported("pointer to array used as a plain location")
	}
	return &Loc{kind: "heapcell", base: v.T, rootT: et}
}

func (w *World) loadPtr(st *State, v *Val, ptrT types.Type) *Val {
	et := deref(ptrT)
	if l := w.locOf(v, ptrT); l != nil {
		t := w.loadLoc(st, l)
		out := &Val{T: w.sc.define("ld", t), Typ: et}
		w.assumeLoaded(st, out)
		w.dataInvAssume(st, l, out)
		if l.kind == "field" && len(l.path) == 0 && w.topEntry != nil {
			// a field that has not been written since the function was entered holds what it held then: a
			// reference to an object that existed at entry
			if h := w.hget(st, w.fieldKey(l.styp, l.field)); strings.HasSuffix(h.S, "@0") || strings.HasSuffix(h.S, "@0|") {
				a0 := w.hget(w.topEntry, allocKey)
				switch et.Underlying().(type) {
				case *types.Pointer, *types.Map:
					w.sc.assume(implies(st.cond, le(out.T, a0)))
				case *types.Slice:
					w.sc.assume(implies(st.cond, le(sarr(out.T), a0)))
				}
			}
		}
		return out
	}
	// whole struct object
	stt := et.Underlying().(*types.Struct)
	var args []Term
	for i := 0; i < stt.NumFields(); i++ {
		args = append(args, sel(w.hget(st, w.fieldKey(et, i)), v.T))
	}
	if stt.NumFields() == 0 {
		return &Val{T: Term{w.structCtor(et), w.sortOf(et)}, Typ: et}
	}
	return &Val{T: w.sc.define("ldobj", mk(w.sortOf(et), w.structCtor(et), args...)), Typ: et}
}

// assumeLoaded records well-formedness facts of a value read from memory:
// references read from the heap were allocated before now.
func (w *World) assumeLoaded(st *State, v *Val) {
	if v.Typ == nil {
		return
	}
	switch v.Typ.Underlying().(type) {
	case *types.Pointer, *types.Map:
		w.sc.assume(implies(st.cond, and(le(intLit(0), v.T), le(v.T, w.hget(st, allocKey)))))
	case *types.Slice:
		w.sc.assume(implies(st.cond, w.sliceWF(st, v.T)))
	case *types.Interface:
		w.sc.assume(implies(st.cond, w.ifaceWF(st, v.T)))
	case *types.Basic:
		w.assumeRange(st, v)
	}
}

func (w *World) sliceWF(st *State, s Term) Term {
	return and(le(intLit(0), sarr(s)), le(sarr(s), w.hget(st, allocKey)), le(intLit(0), soff(s)), le(intLit(0), slen(s)), le(slen(s), scap(s)),
		implies(eq(sarr(s), intLit(0)), and(eq(slen(s), intLit(0)), eq(scap(s), intLit(0)), eq(soff(s), intLit(0)))))
}

func (w *World) ifaceWF(st *State, i Term) Term {
	return and(le(intLit(0), itag(i)), implies(eq(itag(i), intLit(0)), eq(ival(i), intLit(0))))
}

func (w *World) assumeRange(st *State, v *Val) {
	b, ok := v.Typ.Underlying().(*types.Basic)
	if !ok || b.Info()&types.IsInteger == 0 {
		return
	}
	lo, hi := intRange(b)
	if lo == "" {
		return
	}
	w.sc.assume(implies(st.cond, and(mk(SBool, "<=", Term{lo, SInt}, v.T), mk(SBool, "<=", v.T, Term{hi, SInt}))))
}

func intRange(b *types.Basic) (string, string) {
	switch b.Kind() {
	case types.Int, types.Int64:
		return "(- 9223372036854775808)", "9223372036854775807"
	case types.Int32:
		return "(- 2147483648)", "2147483647"
	case types.Int16:
		return "(- 32768)", "32767"
	case types.Int8:
		return "(- 128)", "127"
	case types.Uint, types.Uint64, types.Uintptr:
		return "0", "18446744073709551615"
	case types.Uint32:
		return "0", "4294967295"
	case types.Uint16:
		return "0", "65535"
	case types.Uint8:
		return "0", "255"
	}
	return "", ""
}

func (w *World) storePtr(st *State, addr *Val, ptrT types.Type, v *Val) {
	et := deref(ptrT)
	if l := w.locOf(addr, ptrT); l != nil {
		w.storeLoc(st, l, v.T)
		return
	}
	stt := et.Underlying().(*types.Struct)
	for i := 0; i < stt.NumFields(); i++ {
		k := w.fieldKey(et, i)
		fv := mk(w.sortOf(stt.Field(i).Type()), w.structSel(et, i), v.T)
		w.hset(st, k, store(w.hget(st, k), addr.T, fv))
	}
}

// ---------------------------------------------------------------------
// Constants

func (w *World) constVal(c *ssa.Const) *Val {
	t := c.Type()
	if c.Value == nil {
		// zero value / nil
		if tp, ok := t.Underlying().(*types.Basic); ok && tp.Kind() == types.UntypedNil {
			return &Val{T: intLit(0), Typ: t}
		}
		return &Val{T: w.zero(t), Typ: t}
	}
	switch c.Value.Kind() {
	case constant.Bool:
		return &Val{T: boolLit(constant.BoolVal(c.Value)), Typ: t}
	case constant.String:
		return &Val{T: strLit(constant.StringVal(c.Value)), Typ: t}
	case constant.Int:
		if b, ok := t.Underlying().(*types.Basic); ok && b.Info()&types.IsFloat != 0 {
			return &Val{T: Term{c.Value.ExactString() + ".0", SReal}, Typ: t}
		}
		s := c.Value.ExactString()
		if strings.HasPrefix(s, "-") {
			s = "(- " + s[1:] + ")"
		}
		return &Val{T: Term{s, SInt}, Typ: t}
	case constant.Float:
		f, _ := constant.Float64Val(c.Value)
		s := fmt.Sprintf("%f", f)
		if f < 0 {
			s = fmt.Sprintf("(- %f)", -f)
		}
		return &Val{T: Term{s, SReal}, Typ: t}
	}
	unsupported("constant %s", c)
	return nil
}

// ---------------------------------------------------------------------
// Operand lookup

func (w *World) val(fr *Frame, st *State, v ssa.Value) *Val {
	switch v := v.(type) {
	case *ssa.Const:
		return w.constVal(v)
	case *ssa.Function:
		return &Val{T: w.fnID(v), Typ: v.Type(), Fn: &FnVal{Fn: v}}
	case *ssa.Global:
		key := w.globalKey(v)
		return &Val{Typ: v.Type(), Loc: &Loc{kind: "global", key: key, rootT: deref(v.Type())}}
	case *ssa.Builtin:
		return &Val{Typ: v.Type()}
	}
	if x, ok := fr.vals[v]; ok {
		return x
	}
	unsupported("use of %s (%T) before definition in %s", v.Name(), v, fr.fn.Name())
	return nil
}

func (w *World) fnID(f *ssa.Function) Term {
	if id, ok := w.fnIDs[f]; ok {
		return intLit(int64(id))
	}
	id := 1000 + len(w.fnIDs)
	w.fnIDs[f] = id
	w.fnByID[id] = f
	return intLit(int64(id))
}

// addrTerm gives an address-only value (the address of a field of a heap
// object) a term: an uninterpreted, positive "field address" of the object.
func (w *World) addrTerm(x *Val) (Term, bool) {
	l := x.Loc
	if l == nil || l.kind != "field" || len(l.path) != 0 {
		return Term{}, false
	}
	st := l.styp.Underlying().(*types.Struct)
	name := sym("faddr!" + w.structName(l.styp) + "!" + st.Field(l.field).Name())
	w.preAdd("faddr:"+name, fmt.Sprintf("(declare-fun %s (Int) Int)\n(assert (forall ((o Int)) (! (> (%s o) 0) :pattern ((%s o)))))", name, name, name))
	w.assumption("the address of a struct field is an abstract non-nil value determined by the object (field addresses are not dereferenced through it)")
	return mk(SInt, name, l.base), true
}

func (w *World) term(fr *Frame, st *State, v ssa.Value) Term {
	x := w.val(fr, st, v)
	if x.T.S == "" {
		if t, ok := w.addrTerm(x); ok {
			return t
		}
		if x.Loc != nil {
			unsupported("address of %s escapes into a value context (%s)", v.Name(), fr.fn.Name())
		}
		unsupported("value %s has no term", v.Name())
	}
	return x.T
}

// ---------------------------------------------------------------------
// Instructions

func (w *World) execInstr(fr *Frame, st *State, ins ssa.Instruction) {
	switch ins := ins.(type) {
	case *ssa.DebugRef:
		return
	case *ssa.Alloc:
		w.execAlloc(fr, st, ins)
	case *ssa.Store:
		addr := w.val(fr, st, ins.Addr)
		v := w.val(fr, st, ins.Val)
		if isDeferStack(ins.Val.Type()) {
			return
		}
		if v.T.S == "" {
			unsupported("store of an address-only value (%s) in %s", ins.Val.Name(), fr.fn.Name())
		}
		if addr.Loc == nil {
			w.derefPoint(fr, st, addr.T, "nil dereference", ins.Pos())
		}
		if ia, ok := ins.Addr.(*ssa.IndexAddr); ok {
			if _, isSlice := ia.X.Type().Underlying().(*types.Slice); isSlice {
				w.atAsserts(fr, st, "elemstore", ins, map[string]*Val{"value": v, "index": w.val(fr, st, ia.Index), "slice": w.val(fr, st, ia.X)})
			}
		}
		if fa, ok := ins.Addr.(*ssa.FieldAddr); ok {
			w.fieldStoreAsserts(fr, st, fa, v)
			w.fieldGuardCheck(fr, st, fa, true)
		}
		if l := w.locOf(addr, ins.Addr.Type()); l != nil {
			switch l.kind {
			case "field":
				w.loopWriteCheck(fr, st, w.fieldKey(l.styp, l.field), l.base)
			case "elem":
				w.loopWriteCheck(fr, st, w.elemsKeyT(l.rootT), l.base)
			case "heapcell":
				w.loopWriteCheck(fr, st, w.cellKey(w.sortOf(l.rootT)), l.base)
			}
		} else if et := deref(ins.Addr.Type()); isStruct(et) {
			stt := et.Underlying().(*types.Struct)
			for i := 0; i < stt.NumFields(); i++ {
				w.loopWriteCheck(fr, st, w.fieldKey(et, i), addr.T)
			}
		}
		if addr.Loc != nil {
			w.dataInvStore(fr, st, addr.Loc, v)
		}
		w.storePtr(st, addr, ins.Addr.Type(), v)
		// keep static knowledge about function values held in locals
		if addr.Loc != nil && addr.Loc.kind == "cell" && len(addr.Loc.path) == 0 && (v.Fn != nil || v.Dyn != nil) {
			w.closures[st.cells[addr.Loc.cell].S] = v.Fn
			if v.Dyn != nil {
				w.dynOf[st.cells[addr.Loc.cell].S] = v
			}
		}
	case *ssa.UnOp:
		w.execUnOp(fr, st, ins)
	case *ssa.BinOp:
		x, y := w.val(fr, st, ins.X), w.val(fr, st, ins.Y)
		if (ins.Op == token.QUO || ins.Op == token.REM) && y.T.Sort == SInt {
			w.panicPoint(fr, st, eq(y.T, intLit(0)), "integer division by zero", ins.Pos())
		}
		fr.vals[ins] = &Val{T: w.sc.define(fr.fn.Name()+"."+ins.Name(), w.binop(st, ins.Op, x, y, ins.X.Type())), Typ: ins.Type()}
	case *ssa.FieldAddr:
		x := w.val(fr, st, ins.X)
		styp := deref(ins.X.Type())
		ft := styp.Underlying().(*types.Struct).Field(ins.Field).Type()
		if x.Loc != nil {
			l := *x.Loc
			l.path = append(append([]pathStep{}, l.path...), pathStep{field: ins.Field, typ: ft})
			fr.vals[ins] = &Val{Typ: ins.Type(), Loc: &l}
		} else {
			w.derefPoint(fr, st, x.T, "nil dereference", ins.Pos())
			fr.vals[ins] = &Val{Typ: ins.Type(), Loc: &Loc{kind: "field", base: x.T, styp: styp, field: ins.Field, rootT: ft}}
		}
	case *ssa.Field:
		x := w.val(fr, st, ins.X)
		fr.vals[ins] = &Val{T: mk(w.sortOf(ins.Type()), w.structSel(ins.X.Type(), ins.Field), x.T), Typ: ins.Type()}
	case *ssa.IndexAddr:
		w.execIndexAddr(fr, st, ins)
	case *ssa.Index:
		x := w.val(fr, st, ins.X)
		i := w.term(fr, st, ins.Index)
		switch ins.X.Type().Underlying().(type) {
		case *types.Array:
			fr.vals[ins] = &Val{T: sel(x.T, i), Typ: ins.Type()}
		default:
			// string index
			if w.safetyFull(fr) {
				w.panicPoint(fr, st, or(lt(i, intLit(0)), le(mk(SInt, "str.len", x.T), i)), "index out of range", ins.Pos())
			}
			fr.vals[ins] = &Val{T: mk(SInt, "str.to_code", mk(SString, "str.at", x.T, i)), Typ: ins.Type()}
			w.assumption("string bytes are code points < 256 (non-ASCII text is not modelled byte-exactly)")
		}
	case *ssa.Lookup:
		w.execLookup(fr, st, ins)
	case *ssa.MapUpdate:
		m := w.term(fr, st, ins.Map)
		mt := ins.Map.Type().Underlying().(*types.Map)
		w.guardCheck(fr, st, ins.Map.Type(), m, true)
		w.derefPoint(fr, st, m, "write to nil map", ins.Pos())
		w.atAsserts(fr, st, "mapupdate", ins, map[string]*Val{"key": w.val(fr, st, ins.Key), "value": w.val(fr, st, ins.Value), "map": w.val(fr, st, ins.Map)})
		{
			dk, vk := w.mapKeys(w.sortOf(mt.Key()), w.sortOf(mt.Elem()))
			w.loopWriteCheck(fr, st, dk, m)
			w.loopWriteCheck(fr, st, vk, m)
			w.loopWriteCheck(fr, st, "MapLen", m)
		}
		w.mapStore(st, mt, m, w.term(fr, st, ins.Key), w.term(fr, st, ins.Value))
	case *ssa.MakeMap:
		mt := ins.Type().Underlying().(*types.Map)
		r := w.newRef(st)
		ks, vs := w.sortOf(mt.Key()), w.sortOf(mt.Elem())
		dk, vk := w.mapKeys(ks, vs)
		w.hset(st, dk, store(w.hget(st, dk), r, Term{fmt.Sprintf("((as const %s) false)", arraySort(ks, SBool)), arraySort(ks, SBool)}))
		w.hset(st, vk, store(w.hget(st, vk), r, Term{fmt.Sprintf("((as const %s) %s)", arraySort(ks, vs), w.zero(mt.Elem()).S), arraySort(ks, vs)}))
		w.hset(st, "MapLen", store(w.hget(st, "MapLen"), r, intLit(0)))
		fr.vals[ins] = &Val{T: r, Typ: ins.Type()}
	case *ssa.MakeSlice:
		et := ins.Type().Underlying().(*types.Slice).Elem()
		r := w.newRef(st)
		ln, cp := w.term(fr, st, ins.Len), w.term(fr, st, ins.Cap)
		w.panicPoint(fr, st, lt(ln, intLit(0)), "make with negative length", ins.Pos())
		k := w.elemsKeyT(et)
		es := arraySort(SInt, w.sortOf(et))
		w.hset(st, k, store(w.hget(st, k), r, Term{fmt.Sprintf("((as const %s) %s)", es, w.zero(et).S), es}))
		fr.vals[ins] = &Val{T: w.sc.define("mkslice", mk(SSlice, "mkSlice", r, intLit(0), ln, cp)), Typ: ins.Type()}
	case *ssa.Slice:
		w.execSlice(fr, st, ins)
	case *ssa.MakeInterface:
		x := w.val(fr, st, ins.X)
		if x.T.S == "" {
			unsupported("address-only value boxed into an interface in %s", fr.fn.Name())
		}
		fr.vals[ins] = &Val{T: w.sc.define("iface", w.mkIface(ins.X.Type(), x.T)), Typ: ins.Type(), Dyn: &Val{T: x.T, Typ: ins.X.Type(), Fn: x.Fn, Loc: x.Loc}}
	case *ssa.ChangeInterface:
		x := w.val(fr, st, ins.X)
		fr.vals[ins] = &Val{T: x.T, Typ: ins.Type(), Dyn: x.Dyn}
	case *ssa.ChangeType:
		x := w.val(fr, st, ins.X)
		fr.vals[ins] = &Val{T: x.T, Typ: ins.Type(), Fn: x.Fn, Loc: x.Loc}
	case *ssa.Convert:
		w.execConvert(fr, st, ins)
	case *ssa.TypeAssert:
		w.execTypeAssert(fr, st, ins)
	case *ssa.MakeClosure:
		fn := ins.Fn.(*ssa.Function)
		var bs []*Val
		for _, b := range ins.Bindings {
			bs = append(bs, w.val(fr, st, b))
		}
		id := w.sc.fresh("closure", SInt)
		w.sc.assume(lt(intLit(100000), id))
		fv := &FnVal{Fn: fn, Bindings: bs}
		w.closures[id.S] = fv
		fr.vals[ins] = &Val{T: id, Typ: ins.Type(), Fn: fv}
	case *ssa.Call:
		w.execCall(fr, st, ins)
	case *ssa.Extract:
		t := w.val(fr, st, ins.Tuple)
		if t.Tuple == nil {
			unsupported("extract from non-tuple in %s", fr.fn.Name())
		}
		fr.vals[ins] = t.Tuple[ins.Index]
	case *ssa.Phi:
		// handled at block entry
	case *ssa.Range:
		w.execRange(fr, st, ins)
	case *ssa.Next:
		w.execNext(fr, st, ins)
	case *ssa.Defer:
		if ins.Block() != fr.fn.Blocks[0] {
			// must dominate every exit
			for _, b := range fr.fn.Blocks {
				if hasRunDefers(b) && !ins.Block().Dominates(b) {
					unsupported("conditional defer in %s", fr.fn.Name())
				}
			}
		}
		var args []*Val
		for _, a := range ins.Call.Args {
			av := w.val(fr, st, a)
			if av.T.S == "" {
				if t, ok := w.addrTerm(av); ok {
					av = &Val{T: t, Typ: av.Typ, Loc: av.Loc}
				}
			}
			args = append(args, av)
		}
		if ins.Call.IsInvoke() || ins.Call.StaticCallee() == nil {
			if ins.Call.Value != nil {
				args = append([]*Val{w.val(fr, st, ins.Call.Value)}, args...)
			}
		}
		fr.defers = append(fr.defers, ins)
		fr.deferSt[ins] = args
	case *ssa.RunDefers:
		for i := len(fr.defers) - 1; i >= 0; i-- {
			d := fr.defers[i]
			w.execCallCommon(fr, st, &d.Call, nil, fr.deferSt[d], d.Pos())
		}
	case *ssa.Go, *ssa.Send, *ssa.Select, *ssa.MakeChan:
		unsupported("concurrency primitive %T in %s", ins, fr.fn.Name())
	default:
		unsupported("instruction %T (%s) in %s", ins, ins, fr.fn.Name())
	}
}

func hasRunDefers(b *ssa.BasicBlock) bool {
	for _, i := range b.Instrs {
		if _, ok := i.(*ssa.RunDefers); ok {
			return true
		}
	}
	return false
}

func isDeferStack(t types.Type) bool {
	return strings.Contains(t.String(), "deferStack")
}

func (w *World) execAlloc(fr *Frame, st *State, ins *ssa.Alloc) {
	et := deref(ins.Type())
	if isDeferStack(et) {
		fr.vals[ins] = &Val{Typ: ins.Type(), Loc: &Loc{kind: "cell", cell: cellID{fr.id, ins}, rootT: et}}
		st.cells[cellID{fr.id, ins}] = intLit(0)
		return
	}
	if !ins.Heap {
		id := cellID{fr.id, ins}
		st.cells[id] = w.zero(et)
		fr.vals[ins] = &Val{Typ: ins.Type(), Loc: &Loc{kind: "cell", cell: id, rootT: et}}
		return
	}
	r := w.newRef(st)
	switch u := et.Underlying().(type) {
	case *types.Struct:
		for i := 0; i < u.NumFields(); i++ {
			k := w.fieldKey(et, i)
			w.hset(st, k, store(w.hget(st, k), r, w.zero(u.Field(i).Type())))
		}
	case *types.Array:
		k := w.elemsKeyT(u.Elem())
		w.hset(st, k, store(w.hget(st, k), r, w.zero(et)))
	default:
		k := w.cellKey(w.sortOf(et))
		w.hset(st, k, store(w.hget(st, k), r, w.zero(et)))
	}
	fr.vals[ins] = &Val{T: r, Typ: ins.Type()}
}

func (w *World) execUnOp(fr *Frame, st *State, ins *ssa.UnOp) {
	x := w.val(fr, st, ins.X)
	switch ins.Op {
	case token.MUL:
		if isDeferStack(ins.Type()) {
			fr.vals[ins] = &Val{T: intLit(0), Typ: ins.Type()}
			return
		}
		if fa, ok := ins.X.(*ssa.FieldAddr); ok {
			w.fieldGuardCheck(fr, st, fa, false)
		}
		// a parameter that closures capture lives in a heap cell, but when neither the function nor its closures
		// ever assign it (and its address goes nowhere else) every load yields the value passed in
		if a, ok := ins.X.(*ssa.Alloc); ok && a.Heap {
			if p := spilledParam(a); p != nil {
				if pv, ok := fr.vals[p]; ok && pv.T.S != "" {
					fr.vals[ins] = pv
					return
				}
			}
		}
		if x.Loc == nil {
			w.derefPoint(fr, st, x.T, "nil dereference", ins.Pos())
		}
		// a captured local that is assigned exactly once, outside every loop, before this load (the store
		// dominates it) and never by a closure holds the value stored then, whatever was called in between
		if a, ok := ins.X.(*ssa.Alloc); ok && a.Heap && fr.top {
			if so := writeOnceStore(a); so != nil && so.Block() != nil && ins.Block() != nil &&
				((so.Block() == ins.Block() && instrIndex(so) < instrIndex(ins)) || (so.Block() != ins.Block() && so.Block().Dominates(ins.Block()))) {
				if sv, ok := fr.vals[so.Val]; ok && sv.T.S != "" {
					fr.vals[ins] = sv
					return
				} else if c, isConst := so.Val.(*ssa.Const); isConst {
					fr.vals[ins] = w.constVal(c)
					return
				}
			}
		}
		v := w.loadPtr(st, x, ins.X.Type())
		// recover static knowledge about function values
		if fv, ok := w.closures[v.T.S]; ok && fv != nil {
			v.Fn = fv
		}
		if dv, ok := w.dynOf[v.T.S]; ok {
			v.Dyn = dv.Dyn
		}
		fr.vals[ins] = v
	case token.NOT:
		fr.vals[ins] = &Val{T: not(x.T), Typ: ins.Type()}
	case token.SUB:
		if x.T.Sort == SReal {
			fr.vals[ins] = &Val{T: mk(SReal, "-", x.T), Typ: ins.Type()}
		} else {
			fr.vals[ins] = &Val{T: mk(SInt, "-", x.T), Typ: ins.Type()}
		}
	default:
		unsupported("unary operator %s in %s", ins.Op, fr.fn.Name())
	}
}

func (w *World) binop(st *State, op token.Token, x, y *Val, xt types.Type) Term {
	a, b := x.T, y.T
	if a.S == "" || b.S == "" {
		unsupported("binary operation on address-only value")
	}
	srt := a.Sort
	switch op {
	case token.EQL, token.NEQ:
		var e Term
		switch xt.Underlying().(type) {
		case *types.Slice:
			// only comparison with nil is legal
			other := a
			if x.isNilConst() {
				other = b
			}
			e = eq(sarr(other), intLit(0))
		case *types.Interface:
			if y.isNilConst() || b.S == "(mkI 0 0)" {
				e = eq(itag(a), intLit(0))
			} else if a.S == "(mkI 0 0)" {
				e = eq(itag(b), intLit(0))
			} else {
				e = eq(a, b)
			}
		default:
			e = eq(a, b)
		}
		if op == token.NEQ {
			return not(e)
		}
		return e
	case token.LSS, token.LEQ, token.GTR, token.GEQ:
		if srt == SString {
			switch op {
			case token.LSS:
				return mk(SBool, "str.<", a, b)
			case token.LEQ:
				return mk(SBool, "str.<=", a, b)
			case token.GTR:
				return mk(SBool, "str.<", b, a)
			default:
				return mk(SBool, "str.<=", b, a)
			}
		}
		return mk(SBool, map[token.Token]string{token.LSS: "<", token.LEQ: "<=", token.GTR: ">", token.GEQ: ">="}[op], a, b)
	case token.ADD:
		if srt == SString {
			return mk(SString, "str.++", a, b)
		}
		return w.wrap(mk(srt, "+", a, b), xt)
	case token.SUB:
		return w.wrap(mk(srt, "-", a, b), xt)
	case token.MUL:
		return w.wrap(mk(srt, "*", a, b), xt)
	case token.QUO:
		if srt == SReal {
			return mk(SReal, "/", a, b)
		}
		// Go truncates toward zero
		q := mk(SInt, "div", mk(SInt, "abs", a), mk(SInt, "abs", b))
		neg := mk(SBool, "xor", lt(a, intLit(0)), lt(b, intLit(0)))
		return ite(neg, mk(SInt, "-", q), q)
	case token.REM:
		r := mk(SInt, "mod", mk(SInt, "abs", a), mk(SInt, "abs", b))
		return ite(lt(a, intLit(0)), mk(SInt, "-", r), r)
	case token.LAND:
		return and(a, b)
	case token.LOR:
		return or(a, b)
	case token.AND, token.OR, token.XOR, token.SHL, token.SHR, token.AND_NOT:
		if a.Sort == SInt && b.Sort == SInt {
			// bit operations are uninterpreted functions of their operands (sound: nothing is known about the value)
			name := map[token.Token]string{token.AND: "bit!and", token.OR: "bit!or", token.XOR: "bit!xor", token.SHL: "bit!shl", token.SHR: "bit!shr", token.AND_NOT: "bit!andnot"}[op]
			w.preAdd("bitop:"+name, fmt.Sprintf("(declare-fun %s (Int Int) Int)", name))
			w.assumption("bit operations (&, |, ^, <<, >>, &^) are uninterpreted")
			return mk(SInt, name, a, b)
		}
	}
	unsupported("binary operator %s", op)
	return Term{}
}

// wrap is the place where machine arithmetic would be modelled; integers are
// mathematical (stated assumption).
func (w *World) wrap(t Term, typ types.Type) Term {
	if t.Sort == SInt {
		w.assumption("machine integers are mathematical integers (no overflow modelled)")
	}
	return t
}

func (v *Val) isNilConst() bool {
	return v.T.S == "0" || v.T.S == "(mkSlice 0 0 0 0)" || v.T.S == "(mkI 0 0)"
}

func (w *World) execIndexAddr(fr *Frame, st *State, ins *ssa.IndexAddr) {
	x := w.val(fr, st, ins.X)
	i := w.term(fr, st, ins.Index)
	if fr.top && w.muted == 0 {
		if _, isConst := ins.Index.(*ssa.Const); !isConst {
			seen := false
			for _, t := range w.indexTerms {
				if t.S == i.S {
					seen = true
				}
			}
			if !seen {
				w.indexTerms = append(w.indexTerms, i)
			}
		}
	}
	switch t := ins.X.Type().Underlying().(type) {
	case *types.Slice:
		if w.safetyFull(fr) {
			if _, isConst := ins.Index.(*ssa.Const); !isConst {
				// what the path knows about "every element" is needed at this element
				w.instantiateIntFactsAt(i)
			}
			w.panicPoint(fr, st, or(lt(i, intLit(0)), le(slen(x.T), i)), "index out of range", ins.Pos())
		}
		fr.vals[ins] = &Val{Typ: ins.Type(), Loc: &Loc{kind: "elem", base: sarr(x.T), idx: add(soff(x.T), i), rootT: t.Elem()}}
	case *types.Pointer:
		at := t.Elem().Underlying().(*types.Array)
		if x.Loc != nil {
			l := *x.Loc
			idx := i
			l.path = append(append([]pathStep{}, l.path...), pathStep{idx: &idx, typ: at.Elem()})
			fr.vals[ins] = &Val{Typ: ins.Type(), Loc: &l}
			return
		}
		fr.vals[ins] = &Val{Typ: ins.Type(), Loc: &Loc{kind: "elem", base: x.T, idx: i, rootT: at.Elem()}}
	default:
		unsupported("IndexAddr on %s", ins.X.Type())
	}
}

func (w *World) mapStore(st *State, mt *types.Map, m, k, v Term) {
	ks, vs := w.sortOf(mt.Key()), w.sortOf(mt.Elem())
	dk, vk := w.mapKeys(ks, vs)
	dom := sel(w.hget(st, dk), m)
	had := sel(dom, k)
	ml := w.hget(st, "MapLen")
	w.hset(st, "MapLen", store(ml, m, ite(had, sel(ml, m), add(sel(ml, m), intLit(1)))))
	w.hset(st, dk, store(w.hget(st, dk), m, store(dom, k, tTrue)))
	w.hset(st, vk, store(w.hget(st, vk), m, store(sel(w.hget(st, vk), m), k, v)))
}

func (w *World) mapLoad(st *State, mt *types.Map, m, k Term) (Term, Term) {
	ks, vs := w.sortOf(mt.Key()), w.sortOf(mt.Elem())
	dk, vk := w.mapKeys(ks, vs)
	ok := and(not(eq(m, intLit(0))), sel(sel(w.hget(st, dk), m), k))
	v := ite(ok, sel(sel(w.hget(st, vk), m), k), w.zero(mt.Elem()))
	return v, ok
}

// atAsserts emits the contract's "at <kind> N assert" obligations for the
// N-th instruction of that kind (source order) in the function under contract.
func (w *World) atAsserts(fr *Frame, st *State, kind string, ins ssa.Instruction, vars map[string]*Val) {
	if !fr.top || fr.contract == nil || len(fr.contract.Asserts) == 0 {
		return
	}
	ord := 0
	found := false
	for _, b := range fr.fn.Blocks {
		for _, x := range b.Instrs {
			same := false
			switch x.(type) {
			case *ssa.MapUpdate:
				same = kind == "mapupdate"
			case *ssa.Lookup:
				_, isMap := x.(*ssa.Lookup).X.Type().Underlying().(*types.Map)
				same = kind == "lookup" && isMap
			case *ssa.Store:
				if ia, ok := x.(*ssa.Store).Addr.(*ssa.IndexAddr); ok {
					_, isSlice := ia.X.Type().Underlying().(*types.Slice)
					same = kind == "elemstore" && isSlice
				}
			}
			if same {
				ord++
				if x == ins {
					found = true
				}
			}
			if found {
				break
			}
		}
		if found {
			break
		}
	}
	if !found {
		return
	}
	// the field the map operand was loaded from ("T.f"), when it is read directly from a struct field
	mapField := ""
	var mop ssa.Value
	switch x := ins.(type) {
	case *ssa.Lookup:
		mop = x.X
	case *ssa.MapUpdate:
		mop = x.Map
	}
	if u, ok := mop.(*ssa.UnOp); ok && u.Op == token.MUL {
		if fa, ok := u.X.(*ssa.FieldAddr); ok {
			pt := deref(fa.X.Type())
			if stt, ok := pt.Underlying().(*types.Struct); ok {
				tn := pt.String()
				if n, ok := pt.(*types.Named); ok {
					tn = n.Obj().Name()
				}
				mapField = tn + "." + stt.Field(fa.Field).Name()
			}
		}
	}
	for _, as := range fr.contract.Asserts {
		if as.Kind == kind && as.Field != "" && as.Field != mapField {
			continue
		}
		if as.Kind == kind && (as.Ord == ord || as.Ord == 0) {
			w.firedAsserts[as] = true
			if w.unrollN > 0 && !as.Clause.Star {
				continue
			}
			env := w.contractEnv(fr, st, fr.entry)
			for k, v := range vars {
				env.vars[k] = v
			}
			props := as.Clause.Props
			if len(props) == 0 {
				props = fr.contract.Props
			}
			name := fmt.Sprintf("at.%s%d.%s", kind, ord, as.Clause.Label)
			if as.Ord == 0 {
				w.callOrd["at*:"+kind+as.Clause.Label]++
				name = fmt.Sprintf("at.%s.%s.%d", kind, as.Clause.Label, w.callOrd["at*:"+kind+as.Clause.Label])
			}
			o := w.oblige("assert", name, st.cond, w.skolemGoal(env, as.Clause.Expr), as.Clause.Star, props)
			o.Pos = as.Clause.Line
		}
	}
}

// fieldStoreAsserts emits the "at fieldstore T.f assert" obligations of the
// function under verification for a store to that field, wherever the store
// executes (the body itself or a helper inlined into it).
func (w *World) fieldStoreAsserts(fr *Frame, st *State, fa *ssa.FieldAddr, v *Val) {
	top := fr
	for top.parent != nil {
		top = top.parent
	}
	if !top.top || top.contract == nil || len(top.contract.Asserts) == 0 {
		return
	}
	pt := deref(fa.X.Type())
	stt, ok := pt.Underlying().(*types.Struct)
	if !ok {
		return
	}
	tn := pt.String()
	if n, ok := pt.(*types.Named); ok {
		tn = n.Obj().Name()
	}
	name := tn + "." + stt.Field(fa.Field).Name()
	for _, as := range top.contract.Asserts {
		if as.Kind != "fieldstore" || as.Field != name {
			continue
		}
		w.firedAsserts[as] = true
		if w.unrollN > 0 && !as.Clause.Star {
			continue
		}
		env := w.contractEnv(top, st, top.entry)
		env.vars["object"] = w.val(fr, st, fa.X)
		env.vars["value"] = v
		props := as.Clause.Props
		if len(props) == 0 {
			props = top.contract.Props
		}
		w.callOrd["at*:fieldstore"+name+as.Clause.Label]++
		o := w.oblige("assert", fmt.Sprintf("at.fieldstore.%s.%s.%d", name, as.Clause.Label, w.callOrd["at*:fieldstore"+name+as.Clause.Label]), st.cond, w.skolemGoal(env, as.Clause.Expr), as.Clause.Star, props)
		o.Pos = as.Clause.Line
	}
}

// fieldGuardCheck emits the access-discipline obligation of a guarded struct
// field for a direct load (write=false) or store (write=true), in any frame.
func (w *World) fieldGuardCheck(fr *Frame, st *State, fa *ssa.FieldAddr, write bool) {
	if w.muted > 0 {
		return
	}
	pt := deref(fa.X.Type())
	stt, ok := pt.Underlying().(*types.Struct)
	if !ok {
		return
	}
	n, ok := pt.(*types.Named)
	if !ok || n.Obj().Pkg() == nil {
		return
	}
	name := n.Obj().Name() + "." + stt.Field(fa.Field).Name()
	for _, g := range w.specs.Guards {
		if g.Field != name || g.Pkg != n.Obj().Pkg().Path() {
			continue
		}
		pk := w.l.All[g.Pkg]
		if pk == nil || pk.Types == nil {
			continue
		}
		top := fr
		for top.parent != nil {
			top = top.parent
		}
		env := &CEnv{w: w, pkg: pk.Types, vars: map[string]*Val{"object": w.val(fr, st, fa.X)}, cur: st, old: st}
		cond, what := g.Read, "read"
		if write {
			cond, what = g.Write, "write"
		}
		w.callOrd["fguard:"+name+what]++
		o := w.oblige("guard", fmt.Sprintf("fieldguard.%s.%s.%d", name, what, w.callOrd["fguard:"+name+what]), st.cond, w.evalBool(env, cond), true, g.Props)
		o.Pos = g.File
	}
}

// guardCheck emits the lock-discipline obligations of guarded package-level
// maps for a lookup (write=false) or update (write=true) of map value m, in
// any frame (inlined helpers included).
func (w *World) guardCheck(fr *Frame, st *State, mapT types.Type, m Term, write bool) {
	if w.muted > 0 {
		return
	}
	for _, g := range w.specs.Guards {
		if g.Field != "" {
			continue
		}
		pk := w.l.All[g.Pkg]
		if pk == nil || pk.Types == nil {
			continue
		}
		sp := w.l.Prog.Package(pk.Types)
		if sp == nil {
			continue
		}
		gv, ok := sp.Members[g.Global].(*ssa.Global)
		if !ok || !types.Identical(deref(gv.Type()), mapT) {
			continue
		}
		key := w.globalKey(gv)
		env := &CEnv{w: w, pkg: pk.Types, vars: map[string]*Val{}, cur: st, old: st}
		cond := g.Read
		what := "read"
		if write {
			cond, what = g.Write, "write"
		}
		w.callOrd["guard:"+g.Global+what]++
		props := g.Props
		o := w.oblige("guard", fmt.Sprintf("guard.%s.%s.%d", g.Global, what, w.callOrd["guard:"+g.Global+what]), st.cond,
			implies(eq(m, w.hget(st, key)), w.evalBool(env, cond)), true, props)
		o.Pos = g.File
	}
}

func (w *World) execLookup(fr *Frame, st *State, ins *ssa.Lookup) {
	x := w.term(fr, st, ins.X)
	k := w.term(fr, st, ins.Index)
	if _, isMap := ins.X.Type().Underlying().(*types.Map); isMap {
		w.guardCheck(fr, st, ins.X.Type(), x, false)
		w.atAsserts(fr, st, "lookup", ins, map[string]*Val{"key": w.val(fr, st, ins.Index), "map": w.val(fr, st, ins.X)})
	}
	mt, isMap := ins.X.Type().Underlying().(*types.Map)
	if !isMap {
		fr.vals[ins] = &Val{T: mk(SInt, "str.to_code", mk(SString, "str.at", x, k)), Typ: ins.Type()}
		return
	}
	v, ok := w.mapLoad(st, mt, x, k)
	vv := &Val{T: w.sc.define("mapget", v), Typ: mt.Elem()}
	w.assumeLoaded(st, vv)
	if ins.CommaOk {
		fr.vals[ins] = &Val{Typ: ins.Type(), Tuple: []*Val{vv, {T: w.sc.define("mapok", ok), Typ: types.Typ[types.Bool]}}}
	} else {
		fr.vals[ins] = vv
	}
}

func (w *World) execSlice(fr *Frame, st *State, ins *ssa.Slice) {
	x := w.val(fr, st, ins.X)
	var lo, hi Term
	lo = intLit(0)
	if ins.Low != nil {
		lo = w.term(fr, st, ins.Low)
	}
	switch t := ins.X.Type().Underlying().(type) {
	case *types.Basic: // string
		if ins.High != nil {
			hi = w.term(fr, st, ins.High)
		} else {
			hi = mk(SInt, "str.len", x.T)
		}
		if w.safetyFull(fr) {
			w.panicPoint(fr, st, or(lt(lo, intLit(0)), lt(hi, lo), lt(mk(SInt, "str.len", x.T), hi)), "slice bounds out of range", ins.Pos())
		}
		fr.vals[ins] = &Val{T: w.sc.define("substr", mk(SString, "str.substr", x.T, lo, sub(hi, lo))), Typ: ins.Type()}
	case *types.Slice:
		if ins.High != nil {
			hi = w.term(fr, st, ins.High)
		} else {
			hi = slen(x.T)
		}
		cp := sub(scap(x.T), lo)
		if ins.Max != nil {
			cp = sub(w.term(fr, st, ins.Max), lo)
		}
		if w.safetyFull(fr) {
			w.panicPoint(fr, st, or(lt(lo, intLit(0)), lt(hi, lo), lt(scap(x.T), hi)), "slice bounds out of range", ins.Pos())
		}
		fr.vals[ins] = &Val{T: w.sc.define("slice", mk(SSlice, "mkSlice", sarr(x.T), add(soff(x.T), lo), sub(hi, lo), cp)), Typ: ins.Type()}
	case *types.Pointer:
		at := t.Elem().Underlying().(*types.Array)
		n := intLit(at.Len())
		if ins.High != nil {
			hi = w.term(fr, st, ins.High)
		} else {
			hi = n
		}
		if x.T.S == "" {
			unsupported("slice of a local array in %s", fr.fn.Name())
		}
		fr.vals[ins] = &Val{T: w.sc.define("slice", mk(SSlice, "mkSlice", x.T, lo, sub(hi, lo), sub(n, lo))), Typ: ins.Type()}
		if ins.Low == nil && ins.High == nil {
			fr.vals[ins].ConstLen = int(at.Len())
		}
	default:
		unsupported("slice of %s", ins.X.Type())
	}
}

func (w *World) execConvert(fr *Frame, st *State, ins *ssa.Convert) {
	x := w.val(fr, st, ins.X)
	from, to := ins.X.Type().Underlying(), ins.Type().Underlying()
	fs, ts := w.sortOf(ins.X.Type()), w.sortOf(ins.Type())
	switch {
	case fs == ts && fs != SSlice:
		if fs == SInt {
			fb, ok1 := from.(*types.Basic)
			tb, ok2 := to.(*types.Basic)
			if ok1 && ok2 && fb.Info()&types.IsInteger != 0 && tb.Info()&types.IsInteger != 0 {
				// narrowing conversions are not modelled
				w.assumption("integer conversions do not truncate")
			}
		}
		fr.vals[ins] = &Val{T: x.T, Typ: ins.Type()}
	case fs == SString && ts == SSlice:
		// []byte(s): a fresh byte array holding the bytes of s
		r := w.newRef(st)
		k := w.elemsKeyT(types.Typ[types.Uint8])
		w.hset(st, k, store(w.hget(st, k), r, mk(arraySort(SInt, SInt), "bytesOf", x.T)))
		w.needBytesModel()
		ln := mk(SInt, "str.len", x.T)
		fr.vals[ins] = &Val{T: w.sc.define("bytes", mk(SSlice, "mkSlice", r, intLit(0), ln, ln)), Typ: ins.Type()}
	case fs == SSlice && ts == SString:
		w.needBytesModel()
		k := w.elemsKeyT(types.Typ[types.Uint8])
		fr.vals[ins] = &Val{T: w.sc.define("str", mk(SString, "stringOf", sel(w.hget(st, k), sarr(x.T)), soff(x.T), slen(x.T))), Typ: ins.Type()}
	case fs == SInt && ts == SReal:
		fr.vals[ins] = &Val{T: mk(SReal, "to_real", x.T), Typ: ins.Type()}
		if _, ok := w.specs.Fns["infPos"]; ok {
			// a converted integer is a finite float
			w.sc.assume(and(lt(Term{"infNeg", SReal}, fr.vals[ins].T), lt(fr.vals[ins].T, Term{"infPos", SReal})))
		}
	case fs == SReal && ts == SInt:
		fr.vals[ins] = &Val{T: mk(SInt, "to_int", x.T), Typ: ins.Type()}
		w.assumption("float to integer conversion is floor (truncation toward zero not modelled)")
	case fs == SSlice && ts == SSlice:
		fr.vals[ins] = &Val{T: x.T, Typ: ins.Type()}
	default:
		unsupported("conversion %s -> %s", ins.X.Type(), ins.Type())
	}
}

func (w *World) needBytesModel() {
	w.assumption("string<->[]byte conversions are abstract inverse functions (bytesOf/stringOf, models/00_core.spec)")
}

func (w *World) implementsFn(it types.Type) string {
	name := sym("impl!" + mangle(shortTypeName(it)))
	w.preAdd("impl:"+name, fmt.Sprintf("(declare-fun %s (Int) Bool)", name))
	return name
}

func (w *World) execTypeAssert(fr *Frame, st *State, ins *ssa.TypeAssert) {
	x := w.val(fr, st, ins.X)
	at := ins.AssertedType
	var ok, v Term
	if _, isIface := at.Underlying().(*types.Interface); isIface {
		if x.Dyn != nil {
			ok = boolLit(types.Implements(x.Dyn.Typ, at.Underlying().(*types.Interface)))
		} else {
			ok = and(not(eq(itag(x.T), intLit(0))), mk(SBool, w.implementsFn(at), itag(x.T)))
			w.implFacts[w.implementsFn(at)] = at
		}
		v = x.T
	} else {
		if x.Dyn != nil {
			ok = boolLit(types.Identical(x.Dyn.Typ, at))
		} else {
			ok = eq(itag(x.T), w.tagOf(at))
		}
		v = w.unbox(w.sortOf(at), ival(x.T))
	}
	vv := &Val{T: w.sc.define("ta", v), Typ: at}
	if x.Dyn != nil && ok.S == "true" {
		vv = &Val{T: x.Dyn.T, Typ: at, Fn: x.Dyn.Fn, Dyn: x.Dyn.Dyn}
		if _, isIface := at.Underlying().(*types.Interface); isIface {
			vv = &Val{T: x.T, Typ: at, Dyn: x.Dyn}
		}
	}
	if ins.CommaOk {
		zero := w.zero(at)
		fr.vals[ins] = &Val{Typ: ins.Type(), Tuple: []*Val{{T: w.sc.define("ta", ite(ok, vv.T, zero)), Typ: at, Dyn: vv.Dyn, Fn: vv.Fn}, {T: w.sc.define("taok", ok), Typ: types.Typ[types.Bool]}}}
		w.assumeLoaded(st, fr.vals[ins].Tuple[0])
		return
	}
	// single-value form panics when the assertion fails
	w.panicPoint(fr, st, not(ok), "type assertion", ins.Pos())
	w.sc.assume(implies(st.cond, ok))
	fr.vals[ins] = vv
	w.assumeLoaded(st, vv)
}

// panicPoint records a possible run-time panic. Outside "safety on"
// functions the absence of implicit panics is an assumption.
func (w *World) panicPoint(fr *Frame, st *State, cond Term, what string, pos token.Pos) {
	if ct := w.safetyContract(fr); ct != nil && (ct.Opts["safety"] == "on" || ct.Opts["safety"] == "full") {
		key, in := "panic:"+what, ""
		if !fr.top {
			// an instruction of a helper inlined under `opt safety-inlined on`: named after the helper
			in = "in." + fr.fn.Name() + "."
			key += ":" + fr.fn.Name()
		}
		w.callOrd[key]++
		o := w.oblige("nopanic", fmt.Sprintf("nopanic.%s.%s%d", strings.ReplaceAll(what, " ", "-"), in, w.callOrd[key]), st.cond, not(cond), true, ct.Props)
		if pos.IsValid() {
			p := w.l.Prog.Fset.Position(pos)
			o.Src = fmt.Sprintf("%s:%d:%d", p.Filename, p.Line, p.Column)
		}
		// execution only continues when the instruction did not panic
		w.sc.assume(implies(st.cond, not(cond)))
		return
	}
	w.assumption("implicit run-time panics (nil dereference, index, failed type assertion) do not occur in functions without 'opt safety on'")
}

// dataInvName names the location class a data invariant is declared for: "T.f" for a field of a named struct,
// "elems(T)" for the elements of a []T (T written as in the package that declares the invariant).
func (w *World) dataInvName(l *Loc) (name string, pkg string, ok bool) {
	switch l.kind {
	case "field":
		if len(l.path) != 0 {
			return "", "", false
		}
		n, isNamed := l.styp.(*types.Named)
		if !isNamed || n.Obj().Pkg() == nil {
			return "", "", false
		}
		return n.Obj().Name() + "." + l.styp.Underlying().(*types.Struct).Field(l.field).Name(), n.Obj().Pkg().Path(), true
	case "elem":
		if len(l.path) != 0 || l.rootT == nil {
			return "", "", false
		}
		var p *types.Package
		t := l.rootT
		if pt, isPtr := t.(*types.Pointer); isPtr {
			t = pt.Elem()
		}
		if n, isNamed := t.(*types.Named); isNamed {
			p = n.Obj().Pkg()
		}
		if p == nil {
			return "", "", false
		}
		return "elems(" + types.TypeString(l.rootT, func(q *types.Package) string {
			if q == p {
				return ""
			}
			return q.Name()
		}) + ")", p.Path(), true
	}
	return "", "", false
}

// allocatesLike reports whether the function under verification itself creates objects of the invariant's class
// (a struct of that type, or a backing array of that element type): then only objects that existed when it was
// entered are assumed to satisfy the invariant.
func (w *World) allocatesLike(fn *ssa.Function, l *Loc) bool {
	key := fn.String() + "|" + l.kind + "|" + l.typ().String()
	if l.kind == "field" {
		key = fn.String() + "|field|" + l.styp.String()
	}
	if v, ok := w.allocMemo[key]; ok {
		return v
	}
	res := false
	var visit func(f *ssa.Function)
	visit = func(f *ssa.Function) {
		for _, b := range f.Blocks {
			for _, ins := range b.Instrs {
				switch x := ins.(type) {
				case *ssa.Alloc:
					et := deref(x.Type())
					if l.kind == "field" && types.Identical(et, l.styp) {
						res = true
					}
					if at, ok := et.Underlying().(*types.Array); ok && l.kind == "elem" && types.Identical(at.Elem(), l.rootT) {
						res = true
					}
				case *ssa.MakeSlice:
					if l.kind == "elem" && types.Identical(x.Type().Underlying().(*types.Slice).Elem(), l.rootT) {
						res = true
					}
				case *ssa.Call:
					if b, ok := x.Call.Value.(*ssa.Builtin); ok && b.Name() == "append" && l.kind == "elem" {
						if sl, ok := x.Type().Underlying().(*types.Slice); ok && types.Identical(sl.Elem(), l.rootT) {
							res = true
						}
					}
				}
			}
		}
		for _, a := range f.AnonFuncs {
			visit(a)
		}
	}
	visit(fn)
	if w.allocMemo == nil {
		w.allocMemo = map[string]bool{}
	}
	w.allocMemo[key] = res
	return res
}

func (w *World) dataInvsFor(l *Loc) []*DataInv {
	if len(w.specs.DataInvs) == 0 {
		return nil
	}
	name, pkg, ok := w.dataInvName(l)
	if !ok {
		return nil
	}
	var out []*DataInv
	for _, d := range w.specs.DataInvs {
		if d.Field == name && d.Pkg == pkg {
			out = append(out, d)
		}
	}
	return out
}

// dataInvAssume: a value read from a field (element) that carries a data invariant satisfies it, when the
// function under verification runs under `opt safety full` and did not create the object itself.
func (w *World) dataInvAssume(st *State, l *Loc, v *Val) {
	top := w.topFrame
	if top == nil || top.contract == nil || top.contract.Opts["safety"] != "full" || w.inDataInv {
		return
	}
	invs := w.dataInvsFor(l)
	if len(invs) == 0 {
		return
	}
	guard := st.cond
	if w.allocatesLike(top.fn, l) && w.topEntry != nil {
		guard = and(st.cond, le(l.base, w.hget(w.topEntry, allocKey)))
	}
	w.inDataInv = true
	defer func() { w.inDataInv = false }()
	for _, d := range invs {
		env := w.contractEnv(top, st, top.entry)
		env.vars["value"] = v
		env.vars["object"] = &Val{T: l.base, Typ: types.NewPointer(l.styp)}
		if l.kind == "elem" {
			env.vars["object"] = &Val{T: l.base, Typ: types.Typ[types.Int]}
		}
		w.sc.assume(implies(guard, w.evalBool(env, d.Expr)))
		w.assumption(fmt.Sprintf("data invariant %s %s (%s) of the design model holds for objects the function did not create", d.Field, d.Label, d.Src))
	}
}

// dataInvStore: a store to a field (element) that carries a data invariant establishes it (obligation of
// functions under `opt safety full`).
func (w *World) dataInvStore(fr *Frame, st *State, l *Loc, v *Val) {
	if !fr.top || !w.safetyFull(fr) || l == nil {
		return
	}
	for _, d := range w.dataInvsFor(l) {
		env := w.contractEnv(fr, st, fr.entry)
		env.vars["value"] = v
		env.vars["object"] = &Val{T: l.base, Typ: types.NewPointer(l.styp)}
		if l.kind == "elem" {
			env.vars["object"] = &Val{T: l.base, Typ: types.Typ[types.Int]}
		}
		w.callOrd["datainv:"+d.Field+d.Label]++
		w.inDataInv = true
		g := w.evalBool(env, d.Expr)
		w.inDataInv = false
		w.oblige("datainv", fmt.Sprintf("datainv.%s.%s.%d", d.Field, d.Label, w.callOrd["datainv:"+d.Field+d.Label]), st.cond, g, true, fr.contract.Props)
	}
}

// safetyFull says whether the function under verification asked for the memory-safety obligations as well
// (nil dereference, index and slice bounds, write to a nil map, method call on a nil interface). They are
// generated for the function's own instructions, not for helpers inlined into it.
func (w *World) safetyFull(fr *Frame) bool {
	ct := w.safetyContract(fr)
	return ct != nil && ct.Opts["safety"] == "full" && w.muted == 0
}

// safetyContract is the contract whose safety option governs the instructions of this frame: the frame's own
// when it is the function under verification; the top function's when it says `opt safety-inlined on` and the
// frame is a helper of the same package inlined into it (a helper without contract has no other place where
// its panics could be obligations: C12-r7-c moved a nil-interface call into such a helper).
func (w *World) safetyContract(fr *Frame) *Contract {
	if fr.top {
		return fr.contract
	}
	top := w.topFrame
	if top == nil || top.contract == nil || top.contract.Opts["safety-inlined"] != "on" || fr.contract != nil {
		return nil
	}
	if fr.fn == nil || top.fn == nil || fr.fn.Pkg == nil || fr.fn.Pkg != top.fn.Pkg {
		return nil
	}
	return top.contract
}

// derefPoint: the pointer (map, interface tag) term must not be nil here.
func (w *World) derefPoint(fr *Frame, st *State, ref Term, what string, pos token.Pos) {
	if !w.safetyFull(fr) || ref.S == "" {
		return
	}
	w.panicPoint(fr, st, eq(ref, intLit(0)), what, pos)
}

// ---------------------------------------------------------------------
// Range over maps (arbitrary enumeration order)

type rangeState struct {
	mapT  *types.Map
	m     Term
	isStr bool
}

func (w *World) execRange(fr *Frame, st *State, ins *ssa.Range) {
	mt, ok := ins.X.Type().Underlying().(*types.Map)
	if !ok {
		unsupported("range over string in %s", fr.fn.Name())
	}
	m := w.term(fr, st, ins.X)
	w.ranges[ins] = &rangeState{mapT: mt, m: m}
	// the set of visited keys is ghost state of the iteration
	ks := w.sortOf(mt.Key())
	key := "G!visited!" + fr.fn.Name() + "!" + ins.Name()
	w.heapSort[key] = arraySort(ks, SBool)
	w.hset(st, key, Term{fmt.Sprintf("((as const %s) false)", arraySort(ks, SBool)), arraySort(ks, SBool)})
	fr.vals[ins] = &Val{T: intLit(0), Typ: ins.Type()}
	w.rangeKey[ins] = key
}

func (w *World) execNext(fr *Frame, st *State, ins *ssa.Next) {
	rg, ok := ins.Iter.(*ssa.Range)
	if !ok || w.ranges[rg] == nil {
		unsupported("next on unknown iterator in %s", fr.fn.Name())
	}
	if fv, ok := w.forcedNext[ins]; ok {
		fr.vals[ins] = fv
		return
	}
	rs := w.ranges[rg]
	ks, vs := w.sortOf(rs.mapT.Key()), w.sortOf(rs.mapT.Elem())
	dk, vk := w.mapKeys(ks, vs)
	visKey := w.rangeKey[rg]
	vis := w.hget(st, visKey)
	okT := w.sc.fresh("next.ok", SBool)
	k := w.sc.fresh("next.key", ks)
	dom := sel(w.hget(st, dk), rs.m)
	isNil := eq(rs.m, intLit(0))
	// ok: k is an unvisited key of the map
	w.sc.assume(implies(and(st.cond, okT), and(not(isNil), sel(dom, k), not(sel(vis, k)))))
	// !ok: every key has been visited
	qk := Term{"qk!", ks}
	w.sc.assume(implies(and(st.cond, not(okT), not(isNil)), Term{fmt.Sprintf("(forall ((qk! %s)) (! (=> (select %s qk!) (select %s qk!)) :pattern ((select %s qk!))))", ks, dom.S, vis.S, dom.S), SBool}))
	_ = qk
	w.hset(st, visKey, ite(okT, store(vis, k, tTrue), vis))
	v := sel(sel(w.hget(st, vk), rs.m), k)
	tt := ins.Type().(*types.Tuple)
	kv := &Val{T: k, Typ: tt.At(1).Type()}
	vv := &Val{T: w.sc.define("next.val", v), Typ: tt.At(2).Type()}
	w.assumeLoaded(st, vv)
	fr.vals[ins] = &Val{Typ: ins.Type(), Tuple: []*Val{{T: okT, Typ: types.Typ[types.Bool]}, kv, vv}}
	w.assumption("range over a map enumerates its keys in an arbitrary order, each exactly once")
}

// ---------------------------------------------------------------------
// CFG helpers

type loopInfo struct {
	order    []*ssa.BasicBlock
	isHeader map[*ssa.BasicBlock]int // header -> ordinal (1-based, source order)
	backEdge map[[2]*ssa.BasicBlock]bool
	body     map[*ssa.BasicBlock][]*ssa.BasicBlock // header -> blocks of the natural loop
}

func analyzeLoops(fn *ssa.Function) *loopInfo {
	li := &loopInfo{isHeader: map[*ssa.BasicBlock]int{}, backEdge: map[[2]*ssa.BasicBlock]bool{}, body: map[*ssa.BasicBlock][]*ssa.BasicBlock{}}
	var headers []*ssa.BasicBlock
	for _, b := range fn.Blocks {
		for _, s := range b.Succs {
			if s.Dominates(b) {
				li.backEdge[[2]*ssa.BasicBlock{b, s}] = true
				if li.isHeader[s] == 0 {
					li.isHeader[s] = -1
					headers = append(headers, s)
				}
			}
		}
	}
	// loop ordinals by source position of the header's first positioned
	// instruction, falling back to block index
	sort.SliceStable(headers, func(i, j int) bool { return headers[i].Index < headers[j].Index })
	for i, h := range headers {
		li.isHeader[h] = i + 1
	}
	// natural loop bodies
	for _, h := range headers {
		in := map[*ssa.BasicBlock]bool{h: true}
		var stack []*ssa.BasicBlock
		for _, b := range fn.Blocks {
			if li.backEdge[[2]*ssa.BasicBlock{b, h}] && !in[b] {
				in[b] = true
				stack = append(stack, b)
			}
		}
		for len(stack) > 0 {
			b := stack[len(stack)-1]
			stack = stack[:len(stack)-1]
			for _, p := range b.Preds {
				if !in[p] {
					in[p] = true
					stack = append(stack, p)
				}
			}
		}
		for _, b := range fn.Blocks {
			if in[b] {
				li.body[h] = append(li.body[h], b)
			}
		}
	}
	// reverse postorder ignoring back edges
	seen := map[*ssa.BasicBlock]bool{}
	var post []*ssa.BasicBlock
	var dfs func(b *ssa.BasicBlock)
	dfs = func(b *ssa.BasicBlock) {
		seen[b] = true
		for i := len(b.Succs) - 1; i >= 0; i-- {
			s := b.Succs[i]
			if li.backEdge[[2]*ssa.BasicBlock{b, s}] || seen[s] {
				continue
			}
			dfs(s)
		}
		post = append(post, b)
	}
	if len(fn.Blocks) > 0 {
		dfs(fn.Blocks[0])
	}
	for i := len(post) - 1; i >= 0; i-- {
		li.order = append(li.order, post[i])
	}
	return li
}

var spilledParamCache = map[*ssa.Alloc]*ssa.Parameter{}
var spilledParamDone = map[*ssa.Alloc]bool{}

// spilledParam returns the parameter p when a is the cell p is spilled into at function entry and nothing else
// ever writes the cell: the only store is the spill, every other use is a load or a capture by a closure that
// itself only loads (or captures) it.
func spilledParam(a *ssa.Alloc) *ssa.Parameter {
	if spilledParamDone[a] {
		return spilledParamCache[a]
	}
	spilledParamDone[a] = true
	refs := a.Referrers()
	if refs == nil {
		return nil
	}
	var param *ssa.Parameter
	var readOnly func(v ssa.Value, refs []ssa.Instruction, depth int) bool
	readOnly = func(v ssa.Value, refs []ssa.Instruction, depth int) bool {
		if depth > 4 {
			return false
		}
		for _, r := range refs {
			switch x := r.(type) {
			case *ssa.UnOp:
				if x.Op != token.MUL {
					return false
				}
			case *ssa.DebugRef:
			case *ssa.Store:
				if x.Addr != v {
					return false // the address itself is stored somewhere
				}
				p, isParam := x.Val.(*ssa.Parameter)
				if !isParam || v != ssa.Value(a) || param != nil || x.Block() == nil || x.Block().Index != 0 {
					return false
				}
				param = p
			case *ssa.MakeClosure:
				fn, ok := x.Fn.(*ssa.Function)
				if !ok {
					return false
				}
				for i, b := range x.Bindings {
					if b != v {
						continue
					}
					if i >= len(fn.FreeVars) {
						return false
					}
					fv := fn.FreeVars[i]
					fr := fv.Referrers()
					if fr == nil || !readOnly(fv, *fr, depth+1) {
						return false
					}
				}
			default:
				return false
			}
		}
		return true
	}
	if !readOnly(a, *refs, 0) || param == nil {
		return nil
	}
	spilledParamCache[a] = param
	return param
}

func instrIndex(ins ssa.Instruction) int {
	for i, x := range ins.Block().Instrs {
		if x == ins {
			return i
		}
	}
	return -1
}

var writeOnceCache = map[*ssa.Alloc]*ssa.Store{}
var writeOnceDone = map[*ssa.Alloc]bool{}

// writeOnceStore returns the only store to a heap-allocated (captured) local when that store is outside
// every loop, the variable's address goes nowhere but into closures, and no closure assigns it.
func writeOnceStore(a *ssa.Alloc) *ssa.Store {
	if writeOnceDone[a] {
		return writeOnceCache[a]
	}
	writeOnceDone[a] = true
	refs := a.Referrers()
	if refs == nil {
		return nil
	}
	var store *ssa.Store
	var readOnly func(v ssa.Value, refs []ssa.Instruction, depth int) bool
	readOnly = func(v ssa.Value, refs []ssa.Instruction, depth int) bool {
		if depth > 4 {
			return false
		}
		for _, r := range refs {
			switch x := r.(type) {
			case *ssa.UnOp:
				if x.Op != token.MUL {
					return false
				}
			case *ssa.DebugRef:
			case *ssa.Store:
				if x.Addr != v || v != ssa.Value(a) || store != nil {
					return false
				}
				store = x
			case *ssa.MakeClosure:
				fn, ok := x.Fn.(*ssa.Function)
				if !ok {
					return false
				}
				for i, b := range x.Bindings {
					if b != v {
						continue
					}
					if i >= len(fn.FreeVars) {
						return false
					}
					fv := fn.FreeVars[i]
					fr := fv.Referrers()
					if fr == nil || !readOnly(fv, *fr, depth+1) {
						return false
					}
				}
			default:
				return false
			}
		}
		return true
	}
	if !readOnly(a, *refs, 0) || store == nil || store.Block() == nil {
		return nil
	}
	li := analyzeLoops(a.Parent())
	for _, body := range li.body {
		for _, b := range body {
			if b == store.Block() {
				return nil
			}
		}
	}
	writeOnceCache[a] = store
	return store
}
