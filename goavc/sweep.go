package main

import (
	"fmt"
	"go/types"
	"os"
	"sort"

	"golang.org/x/tools/go/ssa"
)

// cmdSweepDet is a developer aid: it lists the functions of a package that range over a map, and says for each
// whether the determinism obligations (opt maprange deterministic) would discharge with a bare contract
// (no inlining, every call a havoc). Functions that pass can be put under such a contract; nothing here is a check.
func cmdSweepDet(args []string) {
	defer cleanupScratch()
	l, err := loadPackages(args[:1], nil)
	if err != nil {
		fmt.Fprintln(os.Stderr, err)
		os.Exit(1)
	}
	specs, err := loadAllSpecs(l, modelsDir())
	if err != nil {
		fmt.Fprintln(os.Stderr, err)
		os.Exit(1)
	}
	pkgPath := l.Pkgs[0].PkgPath
	sp := l.SPkgs[pkgPath]
	fns := allFunctions(l, sp)
	var names []string
	for n := range fns {
		names = append(names, n)
	}
	sort.Strings(names)
	for _, n := range names {
		f := fns[n]
		nr := 0
		for _, b := range f.Blocks {
			for _, ins := range b.Instrs {
				if rg, ok := ins.(*ssa.Range); ok {
					if _, isMap := rg.X.Type().Underlying().(*types.Map); isMap {
						nr++
					}
				}
			}
		}
		if nr == 0 {
			continue
		}
		has := false
		for _, ct := range specs.Contracts {
			if ct.Kind == "func" && ct.Pkg == pkgPath && ct.Name == n {
				has = true
			}
		}
		if has {
			fmt.Printf("%-60s mapranges=%d already under contract\n", n, nr)
			continue
		}
		ct := &Contract{Kind: "func", Name: n, Pkg: pkgPath, Loops: map[int]*LoopSpec{}, CallSpecs: map[string]*Contract{}, Opts: map[string]string{"maprange": "deterministic", "inline": "none"}, ModAll: true, ModStated: true, Props: []string{"C09"}}
		rep, w := verifyFunction(l, specs, ct)
		solveAll(w, rep.Obls, 10, 1)
		ok := rep.Unsupported == ""
		nd := 0
		for _, o := range rep.Obls {
			if o.Kind == "loop.det" {
				nd++
				if !o.ok() {
					ok = false
				}
			}
		}
		fmt.Printf("%-60s mapranges=%d det-obligations=%d pass=%v %s\n", n, nr, nd, ok, rep.Unsupported)
	}
}
