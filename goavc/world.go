package main

import (
	"time"
	"fmt"
	"go/types"
	"os"
	"sort"
	"strings"
	"sync"

	"golang.org/x/tools/go/ssa"
)

// World is the verification context of one top-level function (or lemma):
// the prelude (datatypes, uninterpreted model functions, type tags), the
// script, and the registries that give Go types their SMT image.
type World struct {
	sortSeq int

	toReal, toContract map[string]string // contract names <-> names in the code (top function)

	l              *Loaded
	specs          *Specs
	sc             *Script
	pre            []string
	preSeen        map[string]bool
	tags           map[string]int
	tagTypes       []types.Type
	heapSort       map[string]Sort
	heapRef        map[string]bool
	epochN         int
	frameN         int
	assumps        map[string]bool // abstractions actually used (reported in evidence)
	obls           []*Obligation
	fnIDs          map[*ssa.Function]int
	fnByID         map[int]*ssa.Function
	closures       map[string]*FnVal // term text -> closure info
	inlineDepth    int
	curFn          string
	unsupported    []string
	callOrd        map[string]int
	smoke          []smokePoint
	dynOf          map[string]*Val
	implFacts      map[string]types.Type
	ranges         map[*ssa.Range]*rangeState
	rangeKey       map[*ssa.Range]string
	havocked       []string
	inlined        map[string]bool
	usedContracts  map[string]*Contract
	topContract    *Contract
	topFrame       *Frame
	unrollN        int // > 0: bounded stand-in, loops are unrolled (see unrollLoop)
	unrollCuts     int
	deadline       time.Time // generation budget of the bounded stand-in
	skipClause     map[*Clause]bool // helper invariants set aside because they no longer fit the code
	forgetMark     int              // script position before which assertions are dropped from later queries (opt forget-before-loop)
	curLoopKeys    map[string]bool  // heap keys the loop whose head is being processed may write
	splits         []Term
	quantFacts     []quantFact
	rawFacts       []rawFact // universally quantified facts of the memory model (append), instantiated like quantFacts
	pendingParts   []Term
	pendingSplits  []Term
	witnessTerms   []Term // constants naming the witnesses of assumed existentials (instantiation candidates)
	loopFreshOnly  map[string]bool
	loopPreserved  map[string]bool
	loopFreshAlloc map[string]bool
	indexTerms     []Term
	topEntry       *State
	firedAsserts   map[*AssertSpec]bool
	pendingExtra   []string
	loopKeysExtra  []string
	loopCallSites  []loopCallSite // calls by contract inside the loop being framed (targets resolved at the loop head)
	curBlock       *ssa.BasicBlock
	muted          int
	forcedNext     map[*ssa.Next]*Val
	loopTargets    map[string][]loopTarget
	loopWhole      map[string]bool
	axioms         []axiomLine
	axiomSrc       []string
	replay         *replayPlan
	allocMemo map[string]bool
	inDataInv bool
}

type axiomLine struct {
	text string
	syms []string
}

type smokePoint struct {
	name string
	cond Term
	mark int
}

func newWorld(l *Loaded, specs *Specs) *World {
	w := &World{l: l, specs: specs, sc: newScript(), preSeen: map[string]bool{}, tags: map[string]int{},
		heapSort: map[string]Sort{}, heapRef: map[string]bool{}, assumps: map[string]bool{}, fnIDs: map[*ssa.Function]int{}, fnByID: map[int]*ssa.Function{},
		closures: map[string]*FnVal{}, firedAsserts: map[*AssertSpec]bool{}, callOrd: map[string]int{}, dynOf: map[string]*Val{}, implFacts: map[string]types.Type{},
		ranges: map[*ssa.Range]*rangeState{}, rangeKey: map[*ssa.Range]string{}, inlined: map[string]bool{}, usedContracts: map[string]*Contract{}}
	w.heapSort["MapLen"] = arraySort(SInt, SInt)
	w.heapSort[allocKey] = SInt
	w.preAdd("Iface", "(declare-datatypes ((Iface 0)) (((mkI (itag Int) (ival Int)))))")
	w.preAdd("Slice", "(declare-datatypes ((Slice 0)) (((mkSlice (sarr Int) (soff Int) (slen Int) (scap Int)))))")
	// fixed tags for the basic types so that model axioms can name them
	for _, t := range []types.Type{types.Typ[types.String], types.Typ[types.Int], types.Typ[types.Bool]} {
		w.tagOf(t)
	}
	w.boxFns(SString)
	for _, ln := range specs.Prelude {
		w.preAdd(ln, ln)
	}
	return w
}

// assumeAxioms states the model axioms written in the contract language.
// Axioms that mention types of packages that are not loaded are skipped.
func (w *World) assumeAxioms() {
	for _, ax := range w.specs.Axioms {
		func() {
			defer func() {
				if r := recover(); r != nil {
					if _, ok := r.(unsupportedErr); ok {
						return
					}
					panic(r)
				}
			}()
			var pkg *types.Package
			if p := w.l.All[ax.Pkg]; p != nil {
				pkg = p.Types
			}
			st := &State{cond: tTrue, heap: map[string]Term{}, cells: map[cellID]Term{}}
			env := &CEnv{w: w, pkg: pkg, vars: map[string]*Val{}, cur: st, old: st}
			t := w.evalBool(env, ax.Expr)
			var syms []string
			for name := range w.specs.Fns {
				if strings.Contains(t.S, "("+sym(name)+" ") || strings.Contains(t.S, " "+sym(name)+")") || strings.Contains(t.S, " "+sym(name)+" ") {
					syms = append(syms, sym(name))
				}
			}
			w.axioms = append(w.axioms, axiomLine{text: "; axiom " + ax.Name + "\n(assert " + t.S + ")", syms: syms})
			w.axiomSrc = append(w.axiomSrc, "model axiom "+ax.Name+": "+ax.Src)
		}()
	}
}

func (w *World) preAdd(key, line string) {
	if w.preSeen[key] {
		return
	}
	w.preSeen[key] = true
	w.pre = append(w.pre, line)
}

func (w *World) prelude() string { return strings.Join(w.pre, "\n") }

var assumpMu sync.Mutex

func (w *World) assumption(s string) {
	assumpMu.Lock()
	w.assumps[s] = true
	assumpMu.Unlock()
}

type unsupportedErr struct{ msg string }

func (e unsupportedErr) Error() string { return e.msg }

func unsupported(format string, args ...any) {
	panic(unsupportedErr{fmt.Sprintf(format, args...)})
}

func mangle(s string) string {
	r := strings.NewReplacer(" ", "_", "(", "<", ")", ">", "|", "!", "\\", "!", "\"", "'", ";", ",")
	return r.Replace(s)
}

func shortTypeName(t types.Type) string {
	return types.TypeString(t, func(p *types.Package) string { return p.Name() })
}

// structName gives the datatype base name of a struct type.
func (w *World) structName(t types.Type) string {
	if n, ok := t.(*types.Named); ok {
		if n.Obj().Pkg() != nil {
			return n.Obj().Pkg().Name() + "." + n.Obj().Name()
		}
		return n.Obj().Name()
	}
	if a, ok := t.(*types.Alias); ok {
		return w.structName(types.Unalias(a))
	}
	return "anon<" + mangle(shortTypeName(t)) + ">"
}

func (w *World) structSort(t types.Type) Sort {
	st := t.Underlying().(*types.Struct)
	name := "S!" + w.structName(t)
	key := "struct:" + name
	if w.preSeen[key] {
		return Sort(sym(name))
	}
	w.preSeen[key] = true
	var fields []string
	for i := 0; i < st.NumFields(); i++ {
		f := st.Field(i)
		fs := w.sortOf(f.Type())
		fields = append(fields, fmt.Sprintf("(%s %s)", sym(name+"!"+f.Name()), fs))
	}
	w.pre = append(w.pre, fmt.Sprintf("(declare-datatypes ((%s 0)) (((%s %s))))", sym(name), sym("mk!"+name), strings.Join(fields, " ")))
	return Sort(sym(name))
}

func (w *World) structCtor(t types.Type) string { return sym("mk!S!" + w.structName(t)) }
func (w *World) structSel(t types.Type, i int) string {
	st := t.Underlying().(*types.Struct)
	return sym("S!" + w.structName(t) + "!" + st.Field(i).Name())
}

// sortOf maps a Go type to its SMT sort.
func (w *World) sortOf(t types.Type) Sort {
	switch u := t.Underlying().(type) {
	case *types.Basic:
		switch {
		case u.Info()&types.IsBoolean != 0:
			return SBool
		case u.Info()&types.IsInteger != 0:
			return SInt
		case u.Info()&types.IsString != 0:
			return SString
		case u.Info()&types.IsFloat != 0:
			w.assumption("floating point values are mathematical reals with uninterpreted rounding")
			return SReal
		case u.Kind() == types.UnsafePointer:
			return SInt
		case u.Kind() == types.UntypedNil:
			return SInt
		}
	case *types.Pointer, *types.Map, *types.Chan, *types.Signature:
		return SInt
	case *types.Interface:
		return SIface
	case *types.Slice:
		return SSlice
	case *types.Struct:
		return w.structSort(t)
	case *types.Array:
		return arraySort(SInt, w.sortOf(u.Elem()))
	case *types.TypeParam:
		return SIface
	}
	unsupported("type %s has no SMT image", t)
	return ""
}

func (w *World) zero(t types.Type) Term {
	s := w.sortOf(t)
	switch u := t.Underlying().(type) {
	case *types.Struct:
		if u.NumFields() == 0 {
			return Term{w.structCtor(t), s}
		}
		var args []Term
		for i := 0; i < u.NumFields(); i++ {
			args = append(args, w.zero(u.Field(i).Type()))
		}
		return mk(s, w.structCtor(t), args...)
	case *types.Array:
		return Term{fmt.Sprintf("((as const %s) %s)", s, w.zero(u.Elem()).S), s}
	}
	return zeroOfSort(s)
}

func zeroOfSort(s Sort) Term {
	switch s {
	case SInt:
		return intLit(0)
	case SBool:
		return tFalse
	case SString:
		return strLit("")
	case SReal:
		return Term{"0.0", SReal}
	case SIface:
		return Term{"(mkI 0 0)", SIface}
	case SSlice:
		return Term{"(mkSlice 0 0 0 0)", SSlice}
	}
	if i, e, ok := arrayParts(s); ok {
		return Term{fmt.Sprintf("((as const %s) %s)", s, zeroOfSort(e).S), s}
		_ = i
	}
	unsupported("no zero value for sort %s", s)
	return Term{}
}

// tagOf returns the dynamic-type tag of a Go type (a positive integer,
// distinct per type).
func (w *World) tagOf(t types.Type) Term {
	key := types.TypeString(types.Unalias(t), nil)
	if n, ok := w.tags[key]; ok {
		return intLit(int64(n))
	}
	n := len(w.tags) + 1
	w.tags[key] = n
	w.tagTypes = append(w.tagTypes, t)
	return intLit(int64(n))
}

func sortSuffix(s Sort) string { return mangle(string(s)) }

func (w *World) boxFns(s Sort) (string, string) {
	b, u := sym("box!"+sortSuffix(s)), sym("unbox!"+sortSuffix(s))
	w.preAdd("box:"+string(s), fmt.Sprintf("(declare-fun %s (%s) Int)\n(declare-fun %s (Int) %s)", b, s, u, s))
	return b, u
}

// box turns a value into an interface payload.
func (w *World) box(v Term) Term {
	switch v.Sort {
	case SInt:
		return v
	case SBool:
		return ite(v, intLit(1), intLit(0))
	}
	b, u := w.boxFns(v.Sort)
	bx := mk(SInt, b, v)
	w.sc.assume(eq(mk(v.Sort, u, bx), v))
	return bx
}

func (w *World) unbox(s Sort, p Term) Term {
	switch s {
	case SInt:
		return p
	case SBool:
		return not(eq(p, intLit(0)))
	}
	_, u := w.boxFns(s)
	return mk(s, u, p)
}

func (w *World) mkIface(t types.Type, v Term) Term {
	return mk(SIface, "mkI", w.tagOf(t), w.box(v))
}

func itag(i Term) Term { return mk(SInt, "itag", i) }
func ival(i Term) Term { return mk(SInt, "ival", i) }

func slen(s Term) Term { return mk(SInt, "slen", s) }
func scap(s Term) Term { return mk(SInt, "scap", s) }
func sarr(s Term) Term { return mk(SInt, "sarr", s) }
func soff(s Term) Term { return mk(SInt, "soff", s) }

func add(a, b Term) Term {
	if b.S == "0" {
		return a
	}
	if a.S == "0" {
		return b
	}
	return mk(SInt, "+", a, b)
}
func sub(a, b Term) Term {
	if b.S == "0" {
		return a
	}
	return mk(SInt, "-", a, b)
}
func le(a, b Term) Term { return mk(SBool, "<=", a, b) }
func lt(a, b Term) Term { return mk(SBool, "<", a, b) }

// ---------------------------------------------------------------------
// Heap keys

func (w *World) fieldKey(structT types.Type, i int) string {
	st := structT.Underlying().(*types.Struct)
	key := "F!" + w.structName(structT) + "!" + st.Field(i).Name()
	if _, ok := w.heapSort[key]; !ok {
		w.heapSort[key] = arraySort(SInt, w.sortOf(st.Field(i).Type()))
		switch st.Field(i).Type().Underlying().(type) {
		case *types.Pointer, *types.Map:
			w.heapRef[key] = true
		}
	}
	return key
}

func (w *World) cellKey(s Sort) string {
	key := "Cell!" + sortSuffix(s)
	w.heapSort[key] = arraySort(SInt, s)
	return key
}

// elemsKeyT: the contents of slice/array backing arrays, one heap key per
// element type (backing arrays of different element types never alias).
func (w *World) elemsKeyT(et types.Type) string {
	if b, ok := types.Unalias(et).(*types.Basic); ok && b.Kind() < types.UntypedBool {
		et = types.Typ[b.Kind()] // byte and uint8, rune and int32 are the same type
	}
	key := "Elems!" + mangle(types.TypeString(types.Unalias(et), func(p *types.Package) string { return p.Name() }))
	w.heapSort[key] = arraySort(SInt, arraySort(SInt, w.sortOf(et)))
	return key
}

func (w *World) elemsKeyOld(s Sort) string {
	key := "Elems!" + sortSuffix(s)
	w.heapSort[key] = arraySort(SInt, arraySort(SInt, s))
	return key
}

func (w *World) mapKeys(k, v Sort) (dom, val string) {
	dom = "MapDom!" + sortSuffix(k) + "!" + sortSuffix(v)
	val = "MapVal!" + sortSuffix(k) + "!" + sortSuffix(v)
	w.heapSort[dom] = arraySort(SInt, arraySort(k, SBool))
	w.heapSort[val] = arraySort(SInt, arraySort(k, v))
	w.heapSort["MapLen"] = arraySort(SInt, SInt)
	return
}

func (w *World) globalKey(g *ssa.Global) string {
	key := "Glob!" + g.Pkg.Pkg.Name() + "." + g.Name()
	w.heapSort[key] = w.sortOf(g.Type().(*types.Pointer).Elem())
	switch g.Type().(*types.Pointer).Elem().Underlying().(type) {
	case *types.Pointer, *types.Map:
		w.heapRef[key] = true
	}
	return key
}

func (w *World) ghostKey(name string) (string, bool) {
	g, ok := w.specs.Ghosts[name]
	if !ok {
		return "", false
	}
	key := "G!" + name
	w.heapSort[key] = g.Sort
	return key, true
}

const allocKey = "$alloc"

// ---------------------------------------------------------------------
// State

type cellID struct {
	frame int
	alloc *ssa.Alloc
}

type State struct {
	cond  Term
	heap  map[string]Term
	cells map[cellID]Term
	epoch int
	// alts: after a join of states with different havoc epochs, the value
	// of a heap key that none of them touched is the ite over their bases
	alts []epochAlt
}

type epochAlt struct {
	cond  Term
	epoch int
}

func (s *State) clone() *State {
	n := &State{cond: s.cond, epoch: s.epoch, alts: s.alts, heap: make(map[string]Term, len(s.heap)), cells: make(map[cellID]Term, len(s.cells))}
	for k, v := range s.heap {
		n.heap[k] = v
	}
	for k, v := range s.cells {
		n.cells[k] = v
	}
	return n
}

func (w *World) baseHeap(key string, epoch int) Term {
	s, ok := w.heapSort[key]
	if !ok {
		panic("unknown heap key " + key)
	}
	name := sym(fmt.Sprintf("%s@%d", key, epoch))
	if _, seen := w.sc.declared[name]; seen {
		return Term{name, s}
	}
	t := w.sc.declare(fmt.Sprintf("%s@%d", key, epoch), s)
	if key != allocKey {
		w.heapTypeInv(key, t, w.baseHeap(allocKey, epoch))
	}
	return t
}

// freshHeap introduces an unconstrained value for a heap key (after a call
// or at a loop head) together with the type invariants of its contents.
func (w *World) freshHeap(key string, alloc Term) Term {
	t := w.sc.fresh(key+"~", w.heapSort[key])
	w.heapTypeInv(key, t, alloc)
	return t
}

// heapTypeInv states the Go type invariants of the values an unconstrained
// heap array holds: slice headers are well formed.
func (w *World) heapTypeInv(key string, arr Term, alloc Term) {
	idx, el, ok := arrayParts(arr.Sort)
	if !ok {
		// a package-level variable holding a pointer or a map: it refers to an allocated object
		if arr.Sort == SInt && w.heapRef[key] && strings.HasPrefix(key, "Glob!") {
			w.sc.raw(fmt.Sprintf("(assert (and (<= 0 %s) (<= %s %s)))", arr.S, arr.S, alloc.S))
		}
		return
	}
	x := fmt.Sprintf("(select %s ti!)", arr.S)
	switch {
	case el == SSlice:
		w.sc.raw(fmt.Sprintf("(assert (forall ((ti! %s)) (! (and (<= 0 (sarr %s)) (<= (sarr %s) %s) (<= 0 (soff %s)) (<= 0 (slen %s)) (<= (slen %s) (scap %s)) (=> (= (sarr %s) 0) (= (slen %s) 0))) :pattern (%s))))", idx, x, x, alloc.S, x, x, x, x, x, x, x))
	case strings.HasSuffix(string(el), " Slice)") && strings.HasPrefix(key, "MapVal!"):
		ki, _, _ := arrayParts(el)
		y := fmt.Sprintf("(select (select %s ti!) tk!)", arr.S)
		w.sc.raw(fmt.Sprintf("(assert (forall ((ti! %s) (tk! %s)) (! (and (<= 0 (sarr %s)) (<= (sarr %s) %s) (<= 0 (soff %s)) (<= 0 (slen %s)) (<= (slen %s) (scap %s)) (=> (= (sarr %s) 0) (= (slen %s) 0))) :pattern (%s))))", idx, ki, y, y, alloc.S, y, y, y, y, y, y, y))
	case el == SInt && w.heapRef[key] && os.Getenv("GOAVC_REFINV") != "":
		w.sc.raw(fmt.Sprintf("(assert (forall ((ti! %s)) (! (and (<= 0 %s) (<= %s %s)) :pattern (%s))))", idx, x, x, alloc.S, x))
	}
}

func (w *World) hget(st *State, key string) Term {
	if key == allocKey {
		w.heapSort[allocKey] = SInt
	}
	if t, ok := st.heap[key]; ok {
		return t
	}
	t := w.implicitHeap(st, key)
	st.heap[key] = t
	return t
}

// implicitHeap is the value of a key the state has not touched yet.
func (w *World) implicitHeap(st *State, key string) Term {
	if len(st.alts) == 0 {
		return w.baseHeap(key, st.epoch)
	}
	var conds, vals []Term
	for _, a := range st.alts {
		conds = append(conds, a.cond)
		vals = append(vals, w.baseHeap(key, a.epoch))
	}
	return w.sc.define(key, iteChain(conds, vals))
}

func (w *World) hset(st *State, key string, v Term) {
	st.heap[key] = w.sc.define(key, v)
}

// capturedSnapshot / keepCaptured: under `opt captured private` the variables a closure captures keep
// their value across calls whose frame is unknown (the callee cannot reach the enclosing function's locals:
// an assumption, recorded in the evidence).
func (w *World) capturedSnapshot(st *State) map[string][2]Term {
	fr := w.topFrame
	if fr == nil || w.topContract == nil || w.topContract.Opts["captured"] != "private" {
		return nil
	}
	out := map[string][2]Term{}
	for _, fv := range fr.fn.FreeVars {
		v, ok := fr.vals[fv]
		if !ok || v.T.S == "" {
			continue
		}
		key := w.cellKey(w.sortOf(deref(fv.Type())))
		out[fv.Name()] = [2]Term{Term{key, ""}, v.T}
		cur := sel(w.hget(st, key), v.T)
		// ... and so is the backing array of a captured slice
		if sl, ok := deref(fv.Type()).Underlying().(*types.Slice); ok {
			ek := w.elemsKeyT(sl.Elem())
			_ = w.hget(st, ek)
			out[fv.Name()+"[]"] = [2]Term{Term{ek, ""}, w.sc.define("cap.arr", sarr(cur))}
		}
	}
	w.assumption("in " + w.topContract.Name + ", the captured variables are private to the closures of the enclosing function: calls with an unknown frame leave them unchanged")
	return out
}

func (w *World) keepCaptured(st, pre *State, snap map[string][2]Term) {
	for _, kr := range snap {
		key, ref := kr[0].S, kr[1]
		w.hset(st, key, store(w.hget(st, key), ref, sel(w.hget(pre, key), ref)))
	}
}

// havocAll forgets everything about the heap and ghost state (allocation
// stays monotone).
func (w *World) havocAll(st *State) {
	oldAlloc := w.hget(st, allocKey)
	keep := map[string]Term{}
	for name, g := range w.specs.Ghosts {
		if g.SpecOnly {
			if key, ok := w.ghostKey(name); ok {
				keep[key] = w.hget(st, key)
			}
		}
	}
	w.epochN++
	st.epoch = w.epochN
	st.alts = nil
	st.heap = map[string]Term{}
	for k, v := range keep {
		st.heap[k] = v
	}
	na := w.hget(st, allocKey)
	w.sc.assume(le(oldAlloc, na))
}

func (w *World) havocKey(st *State, key string) Term {
	t := w.freshHeap(key, w.hget(st, allocKey))
	st.heap[key] = t
	return t
}

func (w *World) newRef(st *State) Term {
	a := w.hget(st, allocKey)
	r := w.sc.define("ref", add(a, intLit(1)))
	st.heap[allocKey] = r
	return r
}

// mergeStates joins states arriving at a control-flow join.
func (w *World) mergeStates(name string, ins []*State) *State {
	if len(ins) == 1 {
		return ins[0].clone()
	}
	var conds []Term
	for _, s := range ins {
		conds = append(conds, s.cond)
	}
	out := &State{heap: map[string]Term{}, cells: map[cellID]Term{}}
	out.cond = w.sc.define("bc!"+name, or(conds...))
	sameEpoch := true
	for _, s := range ins {
		if s.epoch != ins[0].epoch || len(s.alts) > 0 {
			sameEpoch = false
		}
	}
	if sameEpoch {
		out.epoch = ins[0].epoch
	} else {
		w.epochN++
		out.epoch = w.epochN
		for _, s := range ins {
			if len(s.alts) > 0 {
				out.alts = append(out.alts, s.alts...)
			} else {
				out.alts = append(out.alts, epochAlt{s.cond, s.epoch})
			}
		}
	}
	keys := map[string]bool{}
	for _, s := range ins {
		for k := range s.heap {
			keys[k] = true
		}
	}
	var ks []string
	for k := range keys {
		ks = append(ks, k)
	}
	sort.Strings(ks)
	for _, k := range ks {
		var vals []Term
		for _, s := range ins {
			if v, ok := s.heap[k]; ok {
				vals = append(vals, v)
			} else {
				vals = append(vals, w.implicitHeap(s, k))
			}
		}
		out.heap[k] = w.sc.define(k, iteChain(conds, vals))
	}
	cellKeys := map[cellID]bool{}
	for _, s := range ins {
		for k := range s.cells {
			cellKeys[k] = true
		}
	}
	var cks []cellID
	for k := range cellKeys {
		cks = append(cks, k)
	}
	sort.Slice(cks, func(i, j int) bool {
		if cks[i].frame != cks[j].frame {
			return cks[i].frame < cks[j].frame
		}
		return cks[i].alloc.Pos() < cks[j].alloc.Pos() || cks[i].alloc.Pos() == cks[j].alloc.Pos() && cks[i].alloc.Name() < cks[j].alloc.Name()
	})
	for _, k := range cks {
		var vals []Term
		ok := true
		for _, s := range ins {
			v, has := s.cells[k]
			if !has {
				ok = false
				break
			}
			vals = append(vals, v)
		}
		if !ok {
			continue // cell not live on every path: dead after the join
		}
		out.cells[k] = w.sc.define("cell", iteChain(conds, vals))
	}
	return out
}

func iteChain(conds, vals []Term) Term {
	r := vals[len(vals)-1]
	for i := len(vals) - 2; i >= 0; i-- {
		r = ite(conds[i], vals[i], r)
	}
	return r
}

// ---------------------------------------------------------------------
// Obligations

// rawFact is a fact "forall j. inst(j)" produced by the VC generator itself.
type rawFact struct {
	guard Term
	inst  func(j Term) Term
}

type Obligation struct {
	Name         string // func#label
	Func         string
	Label        string
	Props        []string
	Star         bool
	Kind         string // ensures | call.pre | loop.init | loop.step | frame | lemma | nopanic | smoke | vacuity
	Goal         Term
	Mark         int    // script prefix length
	Sliced       bool   // the query was reduced to the assumptions connected to the goal
	Parts        []Term // the goal's top-level conjuncts (each with the path condition): proved one by one when the whole does not answer
	Splits       []Term // case distinctions suggested by the goal (a quantified index equal to / below its upper bound)
	Prelude      string
	Body         string
	Expect       string // "unsat" normally; "sat" for vacuity/smoke checks
	Values       []string
	ValNames     []string
	Result       *SolverResult
	Extra        []string // assumptions local to this obligation (instances of quantified facts)
	KnownFailing bool
	Clause       *Clause
	Relaxed      *SolverResult
	Pos          string
	Src          string // source position of the instruction a safety obligation belongs to
}

// quantFact is a universally quantified fact assumed on some path (a
// requires clause, a loop invariant, a callee postcondition). It is kept in
// source form so that it can be instantiated at the skolem constants of the
// goals proved later (manual triggering: the solvers' pattern inference is
// unreliable on index arithmetic).
type quantFact struct {
	guard Term
	env   *CEnv
	expr  *CExpr
}

// noteQuantFacts records the quantified top-level conjuncts of an assumed
// expression.
func (w *World) noteQuantFacts(guard Term, env *CEnv, e *CExpr) {
	switch {
	case e.Op == "bin" && e.Name == "&&":
		w.noteQuantFacts(guard, env, e.Args[0])
		w.noteQuantFacts(guard, env, e.Args[1])
	case e.Op == "bin" && e.Name == "==>" && e.Args[1].Op == "forall":
		func() {
			defer func() {
				if r := recover(); r != nil {
					if _, ok := r.(unsupportedErr); !ok {
						panic(r)
					}
				}
			}()
			g := w.evalBool(env, e.Args[0])
			w.noteQuantFacts(and(guard, g), env, e.Args[1])
		}()
	case e.Op == "forall" && len(e.Binders) >= 1 && len(e.Binders) <= 2:
		snap := *env
		snap.cur = env.cur.clone()
		if env.old != nil {
			snap.old = env.old
		}
		w.quantFacts = append(w.quantFacts, quantFact{guard, &snap, e})
	}
}

// skolemize replaces the universally quantified positive parts of a goal by
// fresh constants (proving the body for an arbitrary value) and instantiates
// the recorded quantified facts at those constants.
func (w *World) skolemGoal(env *CEnv, e *CExpr) Term {
	var sks []Term
	var skCache []Term // the skolem constants, in creation order (the goal is walked twice)
	skPos := 0
	var extraWitnesses []Term
	var localSplits []Term
	var prioWitnesses []Term // witnesses named by instances at the goal's own skolem constants
	var strSks []Term        // String-sorted skolem constants (keys of maps)
	var walk func(env *CEnv, e *CExpr) Term
	walk = func(env *CEnv, e *CExpr) Term {
		switch {
		case e.Op == "bin" && e.Name == "&&":
			return and(walk(env, e.Args[0]), walk(env, e.Args[1]))
		case e.Op == "bin" && e.Name == "==>":
			ante := w.evalBool(env, e.Args[0])
			cons := walk(env, e.Args[1])
			// universally quantified hypotheses are instantiated at the candidate terms as well
			var insts []Term
			var collect func(h *CExpr)
			henv := env
			collect = func(h *CExpr) {
				env := henv
				switch {
				case h.Op == "bin" && h.Name == "&&":
					collect(h.Args[0])
					collect(h.Args[1])
				case h.Op == "call" && h.Args[0].Op == "id" && h.Args[0].Name == "old" && len(h.Args) == 2:
					// old(H): the hypothesis about the state at entry
					saved := henv
					n := *henv
					n.inOld = true
					henv = &n
					collect(h.Args[1])
					henv = saved
				case h.Op == "call" && h.Args[0].Op == "id":
					// a macro standing for a quantified hypothesis
					if m, ok := w.lookupMacro(env, h.Args[0].Name); ok && len(m.Params) == len(h.Args)-1 {
						func() {
							defer func() {
								if r := recover(); r != nil {
									if _, ok := r.(unsupportedErr); !ok {
										panic(r)
									}
								}
							}()
							saved := henv
							inner := henv
							for i, p := range m.Params {
								inner = inner.with(p, w.eval(henv, h.Args[i+1]))
							}
							henv = inner
							collect(m.Body)
							henv = saved
						}()
					}
				case h.Op == "forall" && len(h.Binders) >= 1 && len(h.Binders) <= 2:
					for _, b := range h.Binders {
						if !((b.Type.Name == "int" || b.Type.Name == "Int") && b.Type.Ptr == 0 && b.Type.Pkg == "" && !b.Type.Slice && b.Type.Raw == "") {
							return
						}
					}
					cands := append([]Term{}, sks...)
					for _, sk := range sks {
						// neighbours of the goal's own positions (an element shifted by one)
						cands = append(cands, add(sk, intLit(1)))
					}
					cands = append(cands, w.indexTerms...)
					if len(cands) > 10 {
						cands = cands[:10]
					}
					var combos [][]Term
					if len(h.Binders) == 1 {
						for _, t := range cands {
							combos = append(combos, []Term{t})
						}
					} else {
						for _, t1 := range cands {
							for _, t2 := range cands {
								combos = append(combos, []Term{t1, t2})
							}
						}
					}
					for _, combo := range combos {
						func() {
							defer func() {
								if r := recover(); r != nil {
									if _, ok := r.(unsupportedErr); !ok {
										panic(r)
									}
								}
							}()
							env2 := env
							for i, b := range h.Binders {
								env2 = env2.with(b.Name, &Val{T: combo[i], Typ: types.Typ[types.Int]})
							}
							insts = append(insts, w.evalBool(env2, h.Args[0]))
						}()
					}
				}
			}
			collect(e.Args[0])
			return implies(and(append([]Term{ante}, insts...)...), cons)
		case e.Op == "forall":
			inner := env
			for _, b := range e.Binders {
				var srt Sort
				var typ types.Type
				if b.Type.Raw != "" {
					srt = Sort(b.Type.Raw)
				} else if b.Type.Pkg == "" && b.Type.Ptr == 0 && !b.Type.Slice && w.isSortName(b.Type.Name) {
					srt = Sort(b.Type.Name)
				} else {
					typ = w.resolveType(env, b.Type)
					srt = w.sortOf(typ)
				}
				var sk Term
				if skPos < len(skCache) {
					sk = skCache[skPos]
				} else {
					sk = w.sc.fresh("sk."+b.Name, srt)
					skCache = append(skCache, sk)
				}
				skPos++
				inner = inner.with(b.Name, &Val{T: sk, Typ: typ})
				if srt == SString {
					dup := false
					for _, x := range strSks {
						if x.S == sk.S {
							dup = true
						}
					}
					if !dup {
						strSks = append(strSks, sk)
					}
				}
				if srt == SInt && e.Args[0].Op == "bin" && e.Args[0].Name == "==>" {
					// "v <= E" / "v < E" in the guard: v at its upper bound is the natural case distinction
					var ub func(c *CExpr)
					ub = func(c *CExpr) {
						if c.Op == "bin" && c.Name == "&&" {
							ub(c.Args[0])
							ub(c.Args[1])
							return
						}
						if c.Op == "bin" && (c.Name == "<=" || c.Name == "<") && c.Args[0].Op == "id" && c.Args[0].Name == b.Name && len(localSplits) < 2 {
							func() {
								defer func() {
									if r := recover(); r != nil {
										if _, ok := r.(unsupportedErr); !ok {
											panic(r)
										}
									}
								}()
								bound := w.eval(inner, c.Args[1]).T
								if strings.Contains(bound.S, "q!") {
									return
								}
								if c.Name == "<" {
									bound = sub(bound, intLit(1))
								}
								localSplits = append(localSplits, eq(sk, bound))
							}()
						}
					}
					ub(e.Args[0].Args[0])
				}
				if srt == SInt {
					dup := false
					for _, x := range sks {
						if x.S == sk.S {
							dup = true
						}
					}
					if !dup {
						sks = append(sks, sk)
					}
				}
			}
			return walk(inner, e.Args[0])
		case e.Op == "exists" && len(e.Binders) == 1 && (e.Binders[0].Type.Name == "int" || e.Binders[0].Type.Name == "Int") && e.Binders[0].Type.Ptr == 0 && e.Binders[0].Type.Pkg == "":
			// a positive existential: offer the program's index terms as witnesses
			// (G(t1) or ... or exists k. G(k) is equivalent to the original)
			alts := []Term{w.evalBool(env, e)}
			cands := append(append(append([]Term{}, w.indexTerms...), sks...), extraWitnesses...)
			// "k < len(x)" in the body: the last position is a natural witness (the element just appended)
			var bounds func(c *CExpr)
			bounds = func(c *CExpr) {
				if c.Op == "bin" && c.Name == "&&" {
					bounds(c.Args[0])
					bounds(c.Args[1])
					return
				}
				if c.Op == "bin" && c.Name == "<" && c.Args[0].Op == "id" && c.Args[0].Name == e.Binders[0].Name {
					func() {
						defer func() {
							if r := recover(); r != nil {
								if _, ok := r.(unsupportedErr); !ok {
									panic(r)
								}
							}
						}()
						cands = append(cands, sub(w.eval(env, c.Args[1]).T, intLit(1)))
					}()
				}
			}
			bounds(e.Args[0])
			for _, t := range cands {
				func() {
					defer func() {
						if r := recover(); r != nil {
							if _, ok := r.(unsupportedErr); !ok {
								panic(r)
							}
						}
					}()
					alts = append(alts, w.evalBool(env.with(e.Binders[0].Name, &Val{T: t, Typ: types.Typ[types.Int]}), e.Args[0]))
				}()
			}
			return or(alts...)
		}
		return w.evalBool(env, e)
	}
	goal := walk(env, e)
	instMark := w.sc.mark()
	witMark := len(w.witnessTerms)
	// instantiate assumed quantified facts at the skolem constants (and at
	// the images of unary integer specification functions)
	var terms []Term
	for _, sk := range sks {
		terms = append(terms, sk)
		for name, fn := range w.specs.Fns {
			if len(fn.Params) == 1 && fn.Params[0] == SInt && fn.Result == SInt && strings.HasPrefix(name, "rootPos") {
				terms = append(terms, mk(SInt, sym(name), sk))
			}
		}
	}
	for _, t := range w.witnessTerms {
		if len(w.witnessTerms) <= 6 || t.S == w.witnessTerms[len(w.witnessTerms)-1].S {
			terms = append(terms, t)
		}
	}
	// program index terms (i in s[i]) are instantiation candidates too
	for _, t := range w.indexTerms {
		dup := false
		for _, x := range terms {
			if x.S == t.S {
				dup = true
			}
		}
		if !dup && len(terms) < 10 {
			terms = append(terms, t)
		}
	}
	isInt := func(b Binder) bool {
		return (b.Type.Name == "int" || b.Type.Name == "Int") && b.Type.Ptr == 0 && b.Type.Pkg == "" && !b.Type.Slice && b.Type.Raw == ""
	}
	if len(terms) > 0 {
		for _, qf := range w.quantFacts {
			ok := true
			for _, b := range qf.expr.Binders {
				if !isInt(b) {
					ok = false
				}
			}
			if !ok {
				continue
			}
			var combos [][]Term
			if len(qf.expr.Binders) == 1 {
				for _, t := range terms {
					combos = append(combos, []Term{t})
				}
			} else {
				for _, t1 := range terms {
					for _, t2 := range terms {
						if len(combos) < 64 {
							combos = append(combos, []Term{t1, t2})
						}
					}
				}
			}
			for _, combo := range combos {
				func() {
					defer func() {
						if r := recover(); r != nil {
							if _, ok := r.(unsupportedErr); !ok {
								panic(r)
							}
						}
					}()
					env2 := qf.env.assuming()
					for i, b := range qf.expr.Binders {
						env2 = env2.with(b.Name, &Val{T: combo[i], Typ: types.Typ[types.Int]})
					}
					nw0 := len(w.witnessTerms)
					inst := w.evalBool(env2, qf.expr.Args[0])
					w.sc.assume(implies(qf.guard, inst))
					// witnesses of instances at the goal's own (skolem) positions are the ones the goal needs first
					own := true
					for _, ct := range combo {
						isSk := false
						for _, sk := range sks {
							if sk.S == ct.S {
								isSk = true
							}
						}
						own = own && isSk
					}
					if own {
						prioWitnesses = append(prioWitnesses, w.witnessTerms[nw0:]...)
					}
				}()
			}
		}
	}
	// facts quantified over one String (map keys) are instantiated at the String skolem constants
	if len(strSks) > 0 {
		isStr := func(b Binder) bool {
			return (b.Type.Name == "String" || b.Type.Name == "string") && b.Type.Ptr == 0 && b.Type.Pkg == "" && !b.Type.Slice && b.Type.Raw == ""
		}
		for _, qf := range w.quantFacts {
			if len(qf.expr.Binders) != 1 || !isStr(qf.expr.Binders[0]) {
				continue
			}
			for _, t := range strSks {
				func() {
					defer func() {
						if r := recover(); r != nil {
							if _, ok := r.(unsupportedErr); !ok {
								panic(r)
							}
						}
					}()
					var typ types.Type
					if qf.expr.Binders[0].Type.Name == "string" {
						typ = types.Typ[types.String]
					}
					env2 := qf.env.assuming().with(qf.expr.Binders[0].Name, &Val{T: t, Typ: typ})
					w.sc.assume(implies(qf.guard, w.evalBool(env2, qf.expr.Args[0])))
				}()
			}
		}
	}
	rf := w.rawFacts
	if len(rf) > 6 {
		rf = rf[len(rf)-6:]
	}
	for _, f := range rf {
		for _, t := range terms {
			w.sc.assume(implies(f.guard, f.inst(t)))
		}
	}
	// witnesses named while instantiating: instantiate the (single-binder) facts at them as well, then offer
	// every recent witness to the positive existentials of the goal
	recent := func() []Term {
		// the witnesses named on the path (most recent four) and those named by the instances above (eight)
		old, nw := w.witnessTerms[:witMark], w.witnessTerms[witMark:]
		if len(old) > 4 {
			old = old[len(old)-4:]
		}
		if len(nw) > 12 {
			nw = nw[len(nw)-12:] // the most recent facts (innermost loop heads, latest calls) come last
		}
		out := append([]Term{}, old...)
		seen := map[string]bool{}
		add1 := func(ts []Term) {
			for _, t := range ts {
				if !seen[t.S] {
					seen[t.S] = true
					out = append(out, t)
				}
			}
		}
		pw := prioWitnesses
		if len(pw) > 16 {
			pw = pw[len(pw)-16:]
		}
		add1(pw)
		add1(nw)
		return out
	}
	if nw := w.witnessTerms[witMark:]; len(nw) > 0 || witMark > 0 {
		cands := recent()
		for _, qf := range w.quantFacts {
			if len(qf.expr.Binders) != 1 || !isInt(qf.expr.Binders[0]) {
				continue
			}
			for _, t := range cands {
				func() {
					defer func() {
						if r := recover(); r != nil {
							if _, ok := r.(unsupportedErr); !ok {
								panic(r)
							}
						}
					}()
					env2 := qf.env.with(qf.expr.Binders[0].Name, &Val{T: t, Typ: types.Typ[types.Int]})
					w.sc.assume(implies(qf.guard, w.evalBool(env2, qf.expr.Args[0])))
				}()
			}
		}
		for _, f := range rf {
			for _, t := range cands {
				w.sc.assume(implies(f.guard, f.inst(t)))
			}
		}
		extraWitnesses = cands
		skPos = 0
		goal = walk(env, e)
	}
	w.witnessTerms = w.witnessTerms[:witMark] // the ones named here are declared in this obligation's own text
	// top-level conjuncts of the goal, walked with the same skolem constants
	var flat func(c *CExpr, out *[]*CExpr)
	flat = func(c *CExpr, out *[]*CExpr) {
		if c.Op == "bin" && c.Name == "&&" {
			flat(c.Args[0], out)
			flat(c.Args[1], out)
			return
		}
		*out = append(*out, c)
	}
	var cs []*CExpr
	flat(e, &cs)
	w.pendingParts = nil
	if len(cs) > 1 && len(cs) <= 12 {
		skPos = 0
		nSplits := len(localSplits)
		for _, c := range cs {
			w.pendingParts = append(w.pendingParts, walk(env, c))
		}
		localSplits = localSplits[:nSplits]
	}
	w.pendingSplits = localSplits
	w.pendingExtra = w.sc.cut(instMark)
	return goal
}

func (w *World) oblige(kind, label string, cond, goal Term, star bool, props []string) *Obligation {
	o := &Obligation{Name: w.curFn + "#" + label, Func: w.curFn, Label: label, Kind: kind, Star: star, Props: props,
		Goal: implies(cond, goal), Mark: w.sc.mark(), Expect: "unsat"}
	o.Extra, w.pendingExtra = w.pendingExtra, nil
	for _, p := range w.pendingParts {
		o.Parts = append(o.Parts, implies(cond, p))
	}
	o.Splits, w.pendingParts, w.pendingSplits = w.pendingSplits, nil, nil
	if w.muted > 0 {
		return o // re-execution of code whose obligations are generated elsewhere
	}
	w.obls = append(w.obls, o)
	return o
}

// bindName makes the contract's name cname stand for the parameter or local
// called real in the function under verification.
func (w *World) bindName(cname, real string) {
	if w.toReal == nil {
		w.toReal = map[string]string{}
		w.toContract = map[string]string{}
	}
	w.toReal[cname] = real
	w.toContract[real] = cname
}

func (w *World) realNameOf(cname string) string {
	if r, ok := w.toReal[cname]; ok {
		return r
	}
	if _, taken := w.toContract[cname]; taken {
		return "\x00shadowed:" + cname // the code's name now means something else to the contract
	}
	return cname
}

func (w *World) contractNameOf(real string) string {
	if c, ok := w.toContract[real]; ok {
		return c
	}
	if _, taken := w.toReal[real]; taken {
		return "\x00shadowed:" + real
	}
	return real
}

// instantiateIntFactsAt assumes, for every quantified fact on the path with a single integer binder, its instance at
// t (sound: an instance of an assumed fact, under that fact's own guard).
func (w *World) instantiateIntFactsAt(t Term) {
	isInt := func(b Binder) bool {
		return (b.Type.Name == "int" || b.Type.Name == "Int") && b.Type.Ptr == 0 && b.Type.Pkg == "" && !b.Type.Slice && b.Type.Raw == ""
	}
	for _, qf := range w.quantFacts {
		if len(qf.expr.Binders) != 1 || !isInt(qf.expr.Binders[0]) {
			continue
		}
		func() {
			defer func() {
				if r := recover(); r != nil {
					if _, ok := r.(unsupportedErr); !ok {
						panic(r)
					}
				}
			}()
			env2 := qf.env.assuming().with(qf.expr.Binders[0].Name, &Val{T: t, Typ: types.Typ[types.Int]})
			w.sc.assume(implies(qf.guard, w.evalBool(env2, qf.expr.Args[0])))
		}()
	}
}
