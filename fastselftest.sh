#!/bin/bash
# Must-fail corpus, fast form: applies every seeded change to a scratch worktree and runs only the property
# check (the build / test-suite / demonstration confirmation of selftest.sh is skipped). $1 = parallel jobs.
cd "$(dirname "$0")"
one() {
  d=$1; id=$(basename $d)
  prop=$(python3 -c "import json;print(json.load(open('$d/meta.json'))['property'])")
  WT=$(mktemp -d /tmp/fseed-XXXXXX)
  git -C /repo worktree add --detach "$WT" HEAD >/dev/null 2>&1
  ( cd "$WT" && git apply "$d/patch.diff" 2>/dev/null ) || { echo "NOAPPLY $id ($prop)"; git -C /repo worktree remove --force "$WT" >/dev/null 2>&1; rm -rf "$WT"; return; }
  OUT=$(GOAVC_REPO="$WT" /verif/bin/goavc check --property $prop 2>&1); EC=$?
  git -C /repo worktree remove --force "$WT" >/dev/null 2>&1; rm -rf "$WT"
  if [ $EC = 1 ]; then echo "caught $id ($prop) $(echo "$OUT" | grep -c BOUNDED:)b $(echo "$OUT" | grep 'failed obligation' | head -2 | sed 's/.*failed obligation \([^ ]*\).*/\1/' | tr '\n' ',')"; else echo "MISSED $id ($prop) exit=$EC $(echo "$OUT" | grep -c BOUNDED:)b"; fi
}
export -f one
ls -d $PWD/seeded/*/ | sed 's|/$||' | xargs -P ${1:-4} -I{} bash -c 'one {}' | sort -k2
