#!/bin/bash
# Must-fail corpus: re-applies every seeded change of /verif/seeded to a scratch worktree of /repo and runs
# the check(s) of its property. Every change must be detected (exit 1 of its check). Prints one line per
# seed and a summary; exits 1 if a seed is missed. Used after every engine or contract change.
cd "$(dirname "$0")"
miss=0; total=0
for d in seeded/*/; do
  id=$(basename "$d")
  prop=$(python3 -c "import json;print(json.load(open('$d/meta.json'))['property'])")
  out=$(./seedcheck.sh "$PWD/$d" $prop)
  ec=$(echo "$out" | python3 -c "import json,sys;r=json.loads(sys.stdin.read().strip().splitlines()[-1]);print(max(c['exit'] for c in r['checks']))")
  total=$((total+1))
  if [ "$ec" != "1" ]; then miss=$((miss+1)); echo "MISSED $id ($prop)"; else echo "caught $id ($prop)"; fi
done
echo "selftest: $total seeded changes, $((total-miss)) caught, $miss missed"
[ $miss = 0 ]
