#!/bin/sh
# Builds the verifier from vendored sources, offline.
set -e
cd "$(dirname "$0")/goavc"
export GOFLAGS=-mod=vendor GOPROXY=off GOSUMDB=off GOTOOLCHAIN=local
mkdir -p ../bin
go build -o ../bin/goavc .
