#!/bin/bash
# usage: refaccheck.sh <dir with patch.diff> <property>...   (behaviour-preserving change: the checks must stay quiet)
SEED="$1"; shift
export GOFLAGS=-mod=mod GOPROXY=off GOSUMDB=off GOTOOLCHAIN=local
WT=$(mktemp -d /tmp/refchk-XXXXXX)
trap 'git -C /repo worktree remove --force "$WT" >/dev/null 2>&1; rm -rf "$WT"' EXIT
git -C /repo worktree add --detach "$WT" HEAD >/dev/null 2>&1
cd "$WT"; git apply "$SEED/patch.diff" || { echo "patch does not apply"; exit 0; }
for P in "$@"; do
  OUT=$(GOAVC_REPO="$WT" /verif/bin/goavc check --property $P 2>&1); EC=$?
  echo "$(basename $(dirname $SEED/x)) $P exit=$EC bounded=$(echo "$OUT" | grep -c '^BOUNDED:') $(echo "$OUT" | grep 'failed obligation' | sed 's/.*failed obligation \([^ ]*\).*/\1/' | tr '\n' ',')"
done
