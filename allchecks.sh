#!/bin/bash
# Runs the quick check of every claimed property against /repo and prints one line per property (developer aid).
cd "$(dirname "$0")"
rc=0
for p in $(python3 -c "import json;print(' '.join(c['property_id'] for c in json.load(open('MANIFEST.json'))['checks']))"); do
  s=$(date +%s); ./bin/goavc check --property $p --tier ${1:-quick} > /tmp/q_$p.log 2>&1; ec=$?
  echo "$p exit=$ec $(( $(date +%s)-s ))s $(grep -c KNOWN-FINDING /tmp/q_$p.log) kf $(grep -c VIOLATION /tmp/q_$p.log) viol"
  [ $ec = 0 ] || rc=1
done
grep -h "failed obl" /tmp/q_C*.log | sort | uniq -c | head -20
exit $rc
